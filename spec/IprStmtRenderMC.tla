--------------------------- MODULE IprStmtRenderMC ---------------------------
(* Binding A for IprStmtRender: the statement trees of IprPrinterMC, each with the text the printer must write. *)
EXTENDS IprPrinterMC, IprStmtRender
EmitR == PrintT(<<"BEH", ToJson([t |-> tree, txt |-> Render(tree)])>>)
=============================================================================
