-------------------------------- MODULE IprIter --------------------------------
(***************************************************************************)
(* Sequence<T>::Iterator as a state machine (properties C14 and C15: begin, *)
(* end, position and the iterator's own operations are defined from        *)
(* positional access; "within bounds, iteration agrees with positional     *)
(* access", outside it is refused).                                        *)
(*                                                                         *)
(* One iterator object over a sequence holding the elements 1..N at the    *)
(* positions 0..N-1 starts at begin().  Its whole state is the position it *)
(* designates: nothing it was asked before may matter.  The position may   *)
(* leave the bounds in both directions (one before begin() is the largest  *)
(* index); reading there is refused, stepping back inside works again.     *)
(***************************************************************************)
EXTENDS Integers, Sequences, TLC

CONSTANTS N, Slack              \* positions -Slack .. N+Slack are visited
Low == 0 - Slack
High == N + Slack
VARIABLES idx, itlast
itvars == <<idx, itlast>>

Refused == -1
Elem(i) == IF i >= 0 /\ i < N THEN i + 1 ELSE Refused

ItOps == {"inc", "dec", "pinc", "pdec", "deref", "arrow", "eqb", "eqe", "copy", "incs", "decs"}
\* what each operation answers at position i:
Result(op, i) ==
   CASE op \in {"deref", "arrow"} -> Elem(i)            \* *it, it.operator->()
     [] op = "copy" -> Elem(i)                        \* a copy of the iterator designates the same element
     [] op = "inc" -> Elem(i + 1)                      \* *++it : the iterator itself, moved
     [] op = "dec" -> Elem(i - 1)                      \* *--it
     [] op \in {"pinc", "pdec"} -> Elem(i)             \* *it++, *it-- : the value is the old position
     [] op \in {"incs", "decs"} -> 0                   \* it++; it--; as statements (value unused)
     [] op = "eqb" -> IF i = 0 THEN 1 ELSE 0           \* it == begin() (and it != begin() is the opposite)
     [] op = "eqe" -> IF i = N THEN 1 ELSE 0           \* it == end()
     [] OTHER -> 0
Moved(op, i) == CASE op \in {"inc", "pinc", "incs"} -> i + 1 [] op \in {"dec", "pdec", "decs"} -> i - 1 [] OTHER -> i

ItInit == idx = 0 /\ itlast = [op |-> "begin", r |-> 0]
Do(op) == /\ Moved(op, idx) \in Low..High
          /\ idx' = Moved(op, idx)
          /\ itlast' = [op |-> op, r |-> Result(op, idx)]
\* the state is the position and nothing else: the answers of an operation are a function of it (checked on the model as:
\* two behaviours that reach the same position answer alike -- which is how Result is written), and the position stays in range
ItInvariant == idx \in Low..High
=============================================================================
