---------------------------- MODULE IprSubstTrace ----------------------------
EXTENDS IprSubst, Json, IOUtils
VARIABLE l
tvars == <<subst, slast, l>>
T == ndJsonDeserialize(IOEnv.TRACE)
Ev == T[l]
TInit == SbInit /\ l = 1
TCall == /\ CASE Ev.op = "make_elementary" -> MakeElementary(Ev.p, Ev.v)
              [] Ev.op = "make_general" -> MakeGeneral
              [] Ev.op = "bind" -> Bind(Ev.s, Ev.p, Ev.v)
              [] Ev.op = "apply" -> Apply(Ev.s, Ev.p)
              [] OTHER -> FALSE
         /\ slast'.r = Ev.r /\ slast'.s = Ev.s
TReset == Ev.op = "reset" /\ subst' = <<>> /\ slast' = [op |-> "init", s |-> 0, p |-> 0, v |-> 0, r |-> 0]
TNext == l <= Len(T) /\ (TCall \/ TReset) /\ l' = l + 1
TSpec == TInit /\ [][TNext]_tvars
Inv == SbTypeOK /\ ElementaryHasOneBinding
Accepted == TLCGet("stats").diameter - 1 = Len(T)
=============================================================================
