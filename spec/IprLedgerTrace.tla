---------------------------- MODULE IprLedgerTrace ----------------------------
(*  {"e":"begin","kind":..,"run":k}  {"e":"alloc","id":n}  {"e":"free","id":n}  {"e":"end"}                              *)
(*  {"e":"summary","kind":..,"allocs":..,"frees":..,"outstanding":..,"double_free":..,"foreign_free":..}                *)
EXTENDS IprLedger, Sequences, Json, IOUtils
VARIABLE l
tvars == <<live, ever, base, open, l>>
T == ndJsonDeserialize(IOEnv.TRACE)
Ev == T[l]
TInit == LgInit /\ l = 1
TBegin == Ev.e = "begin" /\ Begin
TAlloc == Ev.e = "alloc" /\ Alloc(Ev.id)
TFree == Ev.e = "free" /\ Free(Ev.id)
TEnd == Ev.e = "end" /\ End
TSummary == Ev.e = "summary" /\ Summary(Ev.allocs, Ev.frees, Ev.outstanding, Ev.double_free, Ev.foreign_free)
TNext == l <= Len(T) /\ (TBegin \/ TAlloc \/ TFree \/ TEnd \/ TSummary) /\ l' = l + 1
TSpec == TInit /\ [][TNext]_tvars
Accepted == TLCGet("stats").diameter - 1 = Len(T)
=============================================================================
