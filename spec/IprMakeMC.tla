------------------------------ MODULE IprMakeMC ------------------------------
(* Sweep plan: for every factory of Use, every combination of candidate operands (two distinguishable operands per   *)
(* parameter sort, optional parameters also absent, every enumerator value offered), followed by every subset of its   *)
(* settable links taken in table order (each link set to the first candidate of its sort; sequence links pushed twice  *)
(* with both candidates).  After every step the full expected observation of the node is part of the behaviour.       *)
EXTENDS IprMake, Json
CONSTANTS Use, MaxLinks, Record, Mode      \* Mode "sweep": one node and its links; "twins": the same call made twice in a row
VARIABLES hist, nextlink, nset
vars == <<made, mklast, hist, nextlink, nset>>

RECURSIVE Combos(_, _)
Combos(params, k) == IF k > Len(params) THEN {<<>>}
                     ELSE {<<x>> \o rest : x \in {Cand[params[k]][i] : i \in 1..Len(Cand[params[k]])}, rest \in Combos(params, k + 1)}

TwinFactories == {f \in FactoryNames : Factory[f].cat \notin {"Var", "Field", "Bitfield", "Typedecl", "Alias", "Fundecl", "Template"}}
Init == MkInit /\ hist = <<>> /\ nextlink = 0 /\ nset = 0
DoMake == /\ Len(made) = 0
          /\ \E f \in Use : \E a \in Combos(Factory[f].params, 1) :
                /\ Make(f, a)
                /\ nextlink' = 1 /\ nset' = 0
                /\ hist' = (IF Record THEN <<[ev |-> mklast', o |-> Expected(made', IdOf(1))]>> ELSE <<>>)
DoSet == /\ Mode = "sweep" /\ Len(made) = 1 /\ nset < MaxLinks
         /\ LET L == Factory[made[1].f].links IN
            \E j \in nextlink..Len(L) :
               \E v \in (IF L[j].kind = "push" THEN {Cand[L[j].sort][1], Cand[L[j].sort][2]} ELSE {Cand[L[j].sort][1]}) :
                  /\ SetLink(IdOf(1), L[j].l, v)
                  /\ nextlink' = (IF L[j].kind = "push" /\ HasLink(made[1], L[j].l) THEN j + 1
                                  ELSE IF L[j].kind = "push" THEN j ELSE j + 1)
                  /\ nset' = nset + 1
                  /\ hist' = (IF Record THEN Append(hist, [ev |-> mklast', o |-> Expected(made', IdOf(1))]) ELSE hist)
\* C05: each call of a generative factory yields a node of its own, also when the very same call was the previous one; the
\* first node reads as before
DoTwin == /\ Mode = "twins" /\ Len(made) = 1
          /\ Make(made[1].f, made[1].a)
          /\ UNCHANGED <<nextlink, nset>>
          /\ hist' = (IF Record THEN hist \o <<[ev |-> mklast', o |-> Expected(made', IdOf(2))],
                                                [ev |-> [op |-> "observe", f |-> "", a |-> <<>>, n |-> IdOf(1), l |-> "", v |-> 0, r |-> IdOf(1)],
                                                 o |-> Expected(made', IdOf(1))]>> ELSE hist)
Next == DoMake \/ DoSet \/ DoTwin
Spec == Init /\ [][Next]_vars
\* every state is a complete behaviour worth replaying (prefix-closed would double the work: emit only maximal ones)
Maximal == IF Mode = "twins" THEN Len(made) = 2
           ELSE Len(made) = 1 /\ (nset = MaxLinks \/ nextlink > Len(Factory[made[1].f].links))
Emit == (Record /\ Maximal) => PrintT(<<"BEH", ToJson(hist)>>)
TableSane == \A f \in FactoryNames :
                /\ \A x \in DOMAIN Factory[f].acc :
                      LET s == Factory[f].acc[x] IN
                      /\ s.k \in {"arg", "tyof", "nameof", "elems"} => s.v \in 1..Len(Factory[f].params)
                      /\ s.k \in {"checked", "optional", "pushed"} => \E i \in 1..Len(Factory[f].links) : Factory[f].links[i].l = s.l
                /\ \A i \in 1..Len(Factory[f].params) : Factory[f].params[i] \in DOMAIN Cand
                /\ \A i \in 1..Len(Factory[f].links) : Factory[f].links[i].sort \in DOMAIN Cand
=============================================================================
