----------------------------- MODULE IprVisitor -----------------------------
(***************************************************************************)
(* Category, accept() and visitor defaults (property C06).                 *)
(*                                                                         *)
(* Super gives, for every interface category, the hook a visitor falls     *)
(* back to when the category's own hook is not overridden: the nearest     *)
(* abstract super-category.  The table is transcribed from the class       *)
(* declarations of <ipr/interface> at the pinned commit (Category<K, B>):  *)
(* B = Classic for the classic expressions, whose hook in turn falls back  *)
(* to Expr.  Sinks are the seven hooks every visitor must define.          *)
(***************************************************************************)
EXTENDS Naturals, Sequences, FiniteSets, TLC

Sinks == {"Node", "Expr", "Name", "Type", "Directive", "Stmt", "Decl"}
NodeCats == {"Annotation", "Region", "Comment", "String"}
NameCats == {"Identifier", "Operator", "Suffix", "Conversion", "Template_id", "Type_id", "Ctor_name", "Dtor_name", "Guide_name"}
TypeCats == {"Array", "Class", "Decltype", "As_type", "Enum", "Tor", "Function", "Namespace", "Pointer", "Ptr_to_member", "Product", "Qualified", "Reference", "Rvalue_reference", "Sum", "Forall", "Union", "Auto", "Closure"}
ClassicCats == {"Address", "Array_delete", "Complement", "Delete", "Deref", "Not", "Post_decrement", "Post_increment", "Pre_decrement", "Pre_increment", "Throw", "Unary_minus", "Unary_plus", "Expansion", "Scope_ref", "Plus", "Plus_assign", "And", "Array_ref", "Arrow", "Arrow_star", "Assign", "Bitand", "Bitand_assign", "Bitor", "Bitor_assign", "Bitxor", "Bitxor_assign", "Call", "Cast", "Coercion", "Comma", "Const_cast", "Construction", "Div", "Div_assign", "Dot", "Dot_star", "Dynamic_cast", "Equal", "Greater", "Greater_equal", "Less", "Less_equal", "Literal", "Lshift", "Lshift_assign", "Modulo", "Modulo_assign", "Mul", "Mul_assign", "Not_equal", "Or", "Reinterpret_cast", "Rshift", "Rshift_assign", "Static_cast", "Minus", "Minus_assign", "Binary_fold", "New", "Conditional"}
ExprCats == {"Parameter_list", "Overload", "Phantom", "Eclipsis", "Lambda", "Requires", "Symbol", "Asm", "Demotion", "Expr_list", "Alignof", "Sizeof", "Typeid", "Id_expr", "Label", "Materialization", "Enclosure", "Promotion", "Read", "Noexcept", "Args_cardinality", "Restriction", "Rewrite", "Mapping", "Member_init", "Narrow", "Pretend", "Qualification", "Widen", "Where", "Static_assert", "Instantiation", "Scope"}
DirectiveCats == {"Specifiers_spread", "Structured_binding", "Using_declaration", "Using_directive", "Phased_evaluation", "Pragma"}
StmtCats == {"Block", "Break", "Continue", "Ctor_body", "Do", "Expr_stmt", "For", "For_in", "Goto", "Handler", "If", "Labeled_stmt", "Return", "Switch", "While"}
DeclCats == {"Alias", "Base_type", "Enumerator", "Field", "Bitfield", "Fundecl", "Template", "Parameter", "Typedecl", "Var", "EH_parameter"}
Leaves == NodeCats \cup NameCats \cup TypeCats \cup ClassicCats \cup ExprCats \cup DirectiveCats \cup StmtCats \cup DeclCats
Super(k) == CASE k \in NodeCats -> "Node" [] k \in NameCats -> "Name" [] k \in TypeCats -> "Type"
              [] k \in ClassicCats -> "Classic" [] k = "Classic" -> "Expr" [] k \in ExprCats -> "Expr"
              [] k \in DirectiveCats -> "Directive" [] k \in StmtCats -> "Stmt" [] k \in DeclCats -> "Decl"

\* the hooks reached, in order, when no hook is overridden: own hook, then super-categories up to a sink
RECURSIVE Chain(_)
Chain(k) == IF k \in Sinks THEN <<k>> ELSE <<k>> \o Chain(Super(k))

\* with a set of overridden hooks, the node ends in the first overridden hook of its chain
Dispatch(k, overridden) == LET c == Chain(k)
                               S == {i \in 1..Len(c) : c[i] \in overridden \cup Sinks}
                           IN c[CHOOSE i \in S : \A j \in S : i <= j]

\* view<K'>(node of category k) yields the node exactly for K' = k
ViewYields(k, kp) == kp = k

ChainsOK == \A k \in Leaves :
              /\ Chain(k)[1] = k
              /\ Chain(k)[Len(Chain(k))] \in Sinks
              /\ Cardinality({i \in 1..Len(Chain(k)) : Chain(k)[i] \in Sinks}) = 1
              /\ Len(Chain(k)) \in {2, 3}
              /\ (Len(Chain(k)) = 3) <=> (k \in ClassicCats)
              /\ Dispatch(k, {}) = Chain(k)[Len(Chain(k))]
              /\ Dispatch(k, {k}) = k
              /\ Dispatch(k, {Super(k)}) = Super(k)
ASSUME ChainsOK
ASSUME Cardinality(Leaves) = 159
=============================================================================
