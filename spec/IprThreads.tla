------------------------------ MODULE IprThreads ------------------------------
(***************************************************************************)
(* Lexicons are isolated (property C20).                                   *)
(*                                                                         *)
(* N processes, each with a Lexicon of its own: a table from request keys  *)
(* to identities, as in IprUnify, reduced to one constructor over a small  *)
(* key space.  Every process must obtain exactly what it would obtain      *)
(* alone: a request is answered "fresh" exactly when this process did not  *)
(* make it before.  With Shared = TRUE the processes use one table (a      *)
(* model of a function-local cache or a static table): TLC then finds an   *)
(* interleaving in which a process is answered "existing" for a request it *)
(* never made -- which is what the trace validation of every thread        *)
(* against the sequential specification would reject.                      *)
(***************************************************************************)
EXTENDS Naturals, Sequences, FiniteSets, TLC

CONSTANTS Procs, Keys, MaxSteps, Shared

VARIABLES own,       \* [Procs -> SUBSET Keys]  requests each process has made
          tables,    \* [Procs -> SUBSET Keys]  what each process' Lexicon holds (all the same set if Shared)
          answers    \* [Procs -> Seq([k, fresh])]
thvars == <<own, tables, answers>>

ThInit == own = [p \in Procs |-> {}] /\ tables = [p \in Procs |-> {}] /\ answers = [p \in Procs |-> <<>>]

Request(p, k) ==
   /\ Len(answers[p]) < MaxSteps
   /\ answers' = [answers EXCEPT ![p] = Append(@, [k |-> k, fresh |-> (k \notin tables[p])])]
   /\ own' = [own EXCEPT ![p] = @ \cup {k}]
   /\ tables' = IF Shared THEN [q \in Procs |-> tables[q] \cup {k}] ELSE [tables EXCEPT ![p] = @ \cup {k}]

ThNext == \E p \in Procs, k \in Keys : Request(p, k)
ThSpec == ThInit /\ [][ThNext]_thvars

\* what process p would be answered alone, given only its own earlier requests
RECURSIVE Alone(_, _)
Alone(reqs, seen) == IF reqs = <<>> THEN <<>>
                     ELSE <<[k |-> Head(reqs).k, fresh |-> (Head(reqs).k \notin seen)]>> \o Alone(Tail(reqs), seen \cup {Head(reqs).k})
AsAlone == \A p \in Procs : answers[p] = Alone(answers[p], {})
\* nothing mutable in common
Disjoint == Shared \/ \A p \in Procs : tables[p] = own[p]
=============================================================================
