---------------------------- MODULE IprPrinterTrace ----------------------------
(*  {"e":"new"}                                                      a fresh printer on a fresh stream                      *)
(*  {"e":"print","entry":..,"what":..,"out":..,"before":st,"after":st,"ctl":[..],"spelled":[..]}                           *)
(*  {"e":"number","kind":..,"value":n,"bytes":[..]}                  what the printer wrote for a number                   *)
(*  {"e":"text","key":k,"bytes":[..],"graph":[d1,d2]}               C17: program k printed (digests of the graph before/after) *)
(*  {"e":"located","on":[..],"off":[..],"locs":[[f,l,c]..],"split":[..],"reps":[..]}   C17: locations on/off                   *)
EXTENDS IprPrinter, Json, IOUtils
VARIABLE l
tvars == <<pst, texts, l>>
T == ndJsonDeserialize(IOEnv.TRACE)
Ev == T[l]
TInit == PrInit /\ l = 1
St(r) == [indent |-> r.indent, base |-> r.base, flags |-> r.flags, fill |-> r.fill, width |-> r.width, prec |-> r.prec]
TNew == Ev.e = "new" /\ NewPrinter
TPrint == Ev.e = "print" /\ DoPrint(Ev.out, St(Ev.before), St(Ev.after), Ev.ctl, Ev.spelled)
TNumber == Ev.e = "number" /\ Number(Ev.value, Ev.bytes)
TText == Ev.e = "text" /\ SameText(Ev.key, Ev.bytes) /\ Ev.graph[1] = Ev.graph[2]      \* printing leaves the graph untouched
\* with locations on, the text is the text without locations plus, at the start of every located statement (in print
\* order), its prefix F<file>:<line>[:<column>]<space>; `split` gives the lengths of the pieces of `off` between them
\* (the property asks that a location appears when enabled, not that it appears once: a statement that is printed through
\* two entry points, like a declaration statement, may show its prefix `reps` >= 1 times in a row)
RECURSIVE Times(_, _)
Times(x, n) == IF n = 0 THEN <<>> ELSE x \o Times(x, n - 1)
RECURSIVE Weave(_, _, _, _, _)
Weave(off, locs, split, reps, k) ==
   IF k > Len(locs) THEN off
   ELSE SubSeq(off, 1, split[k]) \o Times(LocPrefix(locs[k]), reps[k])
        \o Weave(SubSeq(off, split[k] + 1, Len(off)), locs, split, reps, k + 1)
TLocated == /\ Ev.e = "located"
            /\ Len(Ev.split) = Len(Ev.locs) /\ Len(Ev.reps) = Len(Ev.locs)
            /\ \A k \in 1..Len(Ev.reps) : Ev.reps[k] >= 1
            /\ Ev.on = Weave(Ev.off, Ev.locs, Ev.split, Ev.reps, 1)
            /\ (Len(Ev.locs) = 0) = (Ev.on = Ev.off)
            /\ UNCHANGED prvars
TNext == l <= Len(T) /\ (TNew \/ TPrint \/ TNumber \/ TText \/ TLocated) /\ l' = l + 1
TSpec == TInit /\ [][TNext]_tvars
Accepted == TLCGet("stats").diameter - 1 = Len(T)
=============================================================================
