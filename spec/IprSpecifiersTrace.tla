-------------------------- MODULE IprSpecifiersTrace --------------------------
(* Binding B for C10: recorded register operations on real ipr::Specifiers / ipr::Qualifiers values.      *)
EXTENDS IprSpecifiers, Json, IOUtils

VARIABLE l
tvars == <<spec, qual, l>>
T == ndJsonDeserialize(IOEnv.TRACE)
Ev == T[l]

TInit == SInit /\ l = 1
RegP(family) == IF family = "spec" THEN spec' ELSE qual'

TCoord == /\ Ev.e = "coord"
          /\ IF Ev.n \in Basis(Ev.fam)
             THEN /\ Ev.out = "ok"
                  /\ Coord(Ev.fam, Ev.dst, Ev.n)
                  /\ IsDecompositionOf(Ev.dec, RegP(Ev.fam)[Ev.dst])
             ELSE Ev.out = "refused" /\ UNCHANGED svars          \* an unknown name is refused, never answered
TBin == /\ Ev.e \in {"or", "and", "xor"}
        /\ CASE Ev.e = "or" -> Or(Ev.fam, Ev.dst, Ev.a, Ev.b)
             [] Ev.e = "and" -> And(Ev.fam, Ev.dst, Ev.a, Ev.b)
             [] Ev.e = "xor" -> Xor(Ev.fam, Ev.dst, Ev.a, Ev.b)
        /\ IsDecompositionOf(Ev.dec, RegP(Ev.fam)[Ev.dst])
TClear == Ev.e = "clear" /\ Clear(Ev.fam, Ev.dst) /\ Ev.dec = <<>>
TImplies == /\ Ev.e = "implies"
            /\ Ev.r = Implies(Ev.fam, Ev.a, Ev.b)
            /\ UNCHANGED svars
\* the named accessor equals the coordinate of its own name
TAccessor == /\ Ev.e = "accessor"
             /\ Ev.name \in DOMAIN AccessorName
             /\ Ev.dec = <<AccessorName[Ev.name]>>
             /\ Ev.eqcoord = TRUE
             /\ UNCHANGED svars
TReset == Ev.e = "reset" /\ spec' = [r \in Regs |-> {}] /\ qual' = [r \in Regs |-> {}]

TNext == l <= Len(T) /\ (TCoord \/ TBin \/ TClear \/ TImplies \/ TAccessor \/ TReset) /\ l' = l + 1
TSpec == TInit /\ [][TNext]_tvars
Accepted == TLCGet("stats").diameter - 1 = Len(T)
=============================================================================
