----------------------------- MODULE IprStrings -----------------------------
(***************************************************************************)
(* Interning of words (property C03), R-level.                             *)
(*                                                                         *)
(* A word is a byte string, written in hexadecimal ("" = the empty word);  *)
(* words longer than 64 bytes are written "#<length>:<FNV-1a/64>".         *)
(* State: per Lexicon the map word -> String identity; `content` gives the *)
(* bytes of every String ever returned and never changes; the empty word   *)
(* and the reserved words are process-wide constants shared by all         *)
(* Lexicons (`shared`).                                                    *)
(***************************************************************************)
EXTENDS Naturals, Sequences, FiniteSets, TLC

CONSTANTS Known,      \* reserved words (hex), a lower bound of what the library reserves
          NLex        \* number of Lexicons

Lexes == 1..NLex
EmptyId == 1          \* the harness registers String::empty_string() first

VARIABLES pool,       \* [Lexes -> [word -> id]]   dynamic words
          shared,     \* [word -> id]              reserved words seen so far (all lexicons)
          content,    \* Seq(word): content[id]
          stlast      \* last call: [lx, w, r]
stvars == <<pool, shared, content, stlast>>

StInit == /\ pool = [x \in Lexes |-> <<>>]
          /\ shared = <<>>
          /\ content = <<"">>
          /\ stlast = [lx |-> 0, w |-> "", r |-> 0]

NextId == Len(content) + 1

Intern(lx, w) ==
   IF w = "" THEN /\ stlast' = [lx |-> lx, w |-> w, r |-> EmptyId]
                  /\ UNCHANGED <<pool, shared, content>>
   ELSE IF w \in Known THEN
      IF w \in DOMAIN shared
      THEN /\ stlast' = [lx |-> lx, w |-> w, r |-> shared[w]]
           /\ UNCHANGED <<pool, shared, content>>
      ELSE /\ shared' = (w :> NextId) @@ shared
           /\ content' = Append(content, w)
           /\ stlast' = [lx |-> lx, w |-> w, r |-> NextId]
           /\ UNCHANGED pool
   ELSE IF w \in DOMAIN pool[lx]
      THEN /\ stlast' = [lx |-> lx, w |-> w, r |-> pool[lx][w]]
           /\ UNCHANGED <<pool, shared, content>>
      ELSE /\ pool' = [pool EXCEPT ![lx] = (w :> NextId) @@ @]
           /\ content' = Append(content, w)
           /\ stlast' = [lx |-> lx, w |-> w, r |-> NextId]
           /\ UNCHANGED shared

\* one String per distinct content within a lexicon, contents are what was asked for
StInvariant ==
   /\ \A x \in Lexes : \A w \in DOMAIN pool[x] : content[pool[x][w]] = w /\ w \notin Known /\ w # ""
   /\ \A w \in DOMAIN shared : content[shared[w]] = w /\ w \in Known
   \* (hence two different words never share a String: pool[x][w1] = pool[x][w2] implies w1 = w2)
   /\ content[EmptyId] = ""
\* no later interning alters a String returned earlier
ContentStable == [][Len(content') >= Len(content) /\ SubSeq(content', 1, Len(content)) = content]_stvars
=============================================================================
