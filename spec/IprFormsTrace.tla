----------------------------- MODULE IprFormsTrace -----------------------------
(* {"e":"form","class":c,"how":factory,"family":f,"hooks":[..]} one line per (object, family it can be visited by) *)
EXTENDS IprForms, Json, IOUtils, Naturals
VARIABLES l, seen
T == ndJsonDeserialize(IOEnv.TRACE)
Ev == T[l]
TInit == l = 1 /\ seen = {}
TForm == /\ Ev.class \in Classes /\ Ev.family \in FamiliesOf(Ev.class)
         /\ Ev.hooks = Hooks(Ev.class, Ev.family)
         /\ seen' = seen \cup {<<Ev.class, Ev.family>>}
TNext == l <= Len(T) /\ TForm /\ l' = l + 1
TSpec == TInit /\ [][TNext]_<<l, seen>>
Accepted == TLCGet("stats").diameter - 1 = Len(T)
\* the trace must exercise every (class, family) pair of the table (checked at the end by the runner from `seen`)
Complete == l > Len(T) => seen = {<<c, f>> : c \in Classes, f \in DOMAIN Families} \cap {p \in Classes \X DOMAIN Families : p[1] \in Families[p[2]]}
=============================================================================
