----------------------------- MODULE IprScopesMC -----------------------------
EXTENDS IprScopes, Json
CONSTANTS Depth, UseScopes, UseKinds, UseNames, UseTypes, Record
VARIABLES hist
vars == <<decls, ndecl, sclast, hist>>
AllKinds == HeteroKinds \cup {"param", "enumerator", "base", "ehparam"}
Init == ScInit /\ hist = <<>>
Next == /\ ndecl < Depth
        /\ \E s \in UseScopes, k \in UseKinds, t \in AllTypes :
              /\ (t \in UseTypes \/ t \in {NT + u : u \in UseTypes} \/ t \in {2 * NT + u : u \in UseTypes} \/ t = EnumT)
              /\ \E n \in (IF k = "base" THEN {NameOfType(t)} ELSE UseNames) :
                    /\ Declare(s, k, n, t)
                    /\ hist' = (IF Record THEN Append(hist, [ev |-> sclast', o |-> Obs(decls', s),
                                                            \* asked just before the call: is the name taken, and by which declaration of that type?
                                                            pre |-> <<IF Declared(decls, s, n) THEN 1 ELSE 0, Select(decls, s, n, t)>>]) ELSE hist)
Spec == Init /\ [][Next]_vars
Emit == (Record /\ ndecl = Depth) => PrintT(<<"BEH", ToJson(hist)>>)
AppendOnlyMC == [][\A s \in Scopes : Len(decls'[s]) >= Len(decls[s]) /\ SubSeq(decls'[s], 1, Len(decls[s])) = decls[s]]_vars
=============================================================================
