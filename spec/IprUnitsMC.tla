------------------------------ MODULE IprUnitsMC ------------------------------
(* Binding A for IprUnits: every admissible call sequence up to Depth over the operation alphabet, each step with the   *)
(* whole expected observation; replayed into the library by harness/units.cxx.                                         *)
EXTENDS IprUnits, Json
CONSTANTS Depth, Ops, Record, MaxMods
VARIABLES hist, steps
vars == <<mods, units, ulast, hist, steps>>

\* "bound who is addressed": the two newest units and modules
Newest(n) == {x \in 1..n : x > n - 2}
Args(op) ==
   CASE op \in {"new_unit", "new_module"} -> IF op = "new_module" /\ Len(mods) >= MaxMods THEN {} ELSE {<<>>}
     [] op = "make_unit" -> {<<m>> : m \in Newest(Len(mods))}
     [] op = "import" -> {<<u, m>> : u \in Newest(Len(units)), m \in Newest(Len(mods))}
     [] op = "own" -> {<<u, d>> : u \in {x \in Newest(Len(units)) : units[x].kind # "tu"}, d \in 1..NDecl}
     [] op = "export_module" -> {<<u, m>> : u \in {x \in 1..Len(units) : units[x].kind = "iu"}, m \in Newest(Len(mods))}
     [] op = "export_decl" -> {<<u, d>> : u \in {x \in 1..Len(units) : units[x].kind = "iu"}, d \in 1..NDecl}
     [] op = "stem" -> {<<m, i>> : m \in Newest(Len(mods)), i \in 1..NIdent}
     [] OTHER -> {}

Init == UInit /\ hist = <<>> /\ steps = 0
Next == /\ steps < Depth
        /\ \E op \in Ops : \E a \in Args(op) :
              /\ Call(op, a)
              /\ steps' = steps + 1
              /\ hist' = (IF Record THEN Append(hist, [ev |-> ulast', o |-> Obs(mods', units')]) ELSE hist)
Spec == Init /\ [][Next]_vars
Emit == (Record /\ steps = Depth) => PrintT(<<"BEH", ToJson(hist)>>)
OnlyGrowsMC == [][/\ Len(units') >= Len(units) /\ Len(mods') >= Len(mods)
                  /\ \A u \in 1..Len(units) : /\ units'[u].kind = units[u].kind /\ units'[u].parent = units[u].parent
                                              /\ Prefix(units[u].imports, units'[u].imports) /\ Prefix(units[u].purview, units'[u].purview)
                                              /\ Prefix(units[u].xmods, units'[u].xmods) /\ Prefix(units[u].xdecls, units'[u].xdecls)
                  /\ \A m \in 1..Len(mods) : /\ mods'[m].iface = mods[m].iface
                                             /\ Prefix(mods[m].stems, mods'[m].stems) /\ Prefix(mods[m].impls, mods'[m].impls)]_vars
=============================================================================
