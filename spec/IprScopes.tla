------------------------------ MODULE IprScopes ------------------------------
(***************************************************************************)
(* Scopes, overload sets and declaration sets (property C07).              *)
(*                                                                         *)
(* A scope is nothing but the sequence of declarations entered into it;    *)
(* everything the interface answers (elements, product type, lookup by     *)
(* name, selection by type, master, declaration-set, position) is a        *)
(* derived operator of that sequence.                                      *)
(*                                                                         *)
(* Names: 1..NNames are identifiers; NNames+t is the name of built-in type *)
(* t (the name a base-class declaration goes by).  Types: 1..NT built-in,  *)
(* NT+1..2NT function types, 2NT+1..3NT forall types, 3NT+1 the enum whose *)
(* enumerators scope 4 holds.                                              *)
(***************************************************************************)
EXTENDS Naturals, Sequences, FiniteSets, TLC

CONSTANTS NNames, NT

Scopes == 1..6
ScopeKind == <<"hetero", "hetero", "params", "enums", "bases", "handler">>
Idents == 1..NNames
BTypes == 1..NT
FTypes == (NT + 1)..(2 * NT)
QTypes == (2 * NT + 1)..(3 * NT)
EnumT == 3 * NT + 1
AllTypes == 1..EnumT
AllNames == 1..(NNames + NT)
NameOfType(t) == NNames + t

HeteroKinds == {"var", "field", "bitfield", "typedecl", "alias", "fundecl", "ptemplate", "stemplate"}
TypesFor(kind) == CASE kind \in {"var", "field", "bitfield", "typedecl", "alias", "param", "base", "ehparam"} -> BTypes
                    [] kind = "fundecl" -> FTypes
                    [] kind \in {"ptemplate", "stemplate"} -> QTypes
                    [] kind = "enumerator" -> {EnumT}

VARIABLES decls,     \* [Scopes -> Seq([id, kind, n, t])], in entry order
          ndecl,     \* number of declarations made so far (identities are 1..ndecl in creation order)
          sclast     \* the last call
scvars == <<decls, ndecl, sclast>>

ScInit == decls = [s \in Scopes |-> <<>>] /\ ndecl = 0 /\ sclast = [s |-> 0, k |-> "init", n |-> 0, t |-> 0, r |-> 0]

\* Admissible requests.  Heterogeneous scopes: any repetition, but a name-type pair belongs to one declaration
\* kind.  Parameter lists, enumerations and base lists: a name is declared at most once.
CanDeclare(s, kind, n, t) ==
   /\ t \in TypesFor(kind)
   /\ CASE ScopeKind[s] = "hetero" ->
              /\ kind \in HeteroKinds /\ n \in Idents
              /\ \A i \in 1..Len(decls[s]) : (decls[s][i].n = n /\ decls[s][i].t = t) => decls[s][i].kind = kind
        [] ScopeKind[s] = "params" -> kind = "param" /\ n \in Idents /\ \A i \in 1..Len(decls[s]) : decls[s][i].n # n
        [] ScopeKind[s] = "enums" -> kind = "enumerator" /\ n \in Idents /\ \A i \in 1..Len(decls[s]) : decls[s][i].n # n
        [] ScopeKind[s] = "bases" -> kind = "base" /\ n = NameOfType(t) /\ \A i \in 1..Len(decls[s]) : decls[s][i].n # n
        \* the region of a handler binds exactly its exception parameter: one declaration, made with the handler
        [] ScopeKind[s] = "handler" -> kind = "ehparam" /\ n \in Idents /\ Len(decls[s]) = 0

Declare(s, kind, n, t) ==
   /\ CanDeclare(s, kind, n, t)
   /\ decls' = [decls EXCEPT ![s] = Append(@, [id |-> ndecl + 1, kind |-> kind, n |-> n, t |-> t])]
   /\ ndecl' = ndecl + 1
   /\ sclast' = [s |-> s, k |-> kind, n |-> n, t |-> t, r |-> ndecl + 1]

---------------------------------------------------------------------------
(* Derived operators: what the interface must answer in a given state.     *)

D(ds, s) == ds[s]
SameNT(ds, s, i, j) == D(ds, s)[i].n = D(ds, s)[j].n /\ D(ds, s)[i].t = D(ds, s)[j].t
\* index of the first declaration with the name and type of the i-th
MasterIx(ds, s, i) == CHOOSE j \in 1..i : SameNT(ds, s, i, j) /\ \A k \in 1..(j - 1) : ~SameNT(ds, s, i, k)
Ixs(ds, s) == [k \in 1..Len(D(ds, s)) |-> k]
DeclSetIx(ds, s, i) == SelectSeq(Ixs(ds, s), LAMBDA k : SameNT(ds, s, i, k))
IdAt(ds, s) == [k \in 1..Len(D(ds, s)) |-> D(ds, s)[k].id]

Elements(ds, s) == IdAt(ds, s)
ScopeType(ds, s) == [k \in 1..Len(D(ds, s)) |-> D(ds, s)[k].t]
Declared(ds, s, n) == \E i \in 1..Len(D(ds, s)) : D(ds, s)[i].n = n
Select(ds, s, n, t) == LET S == {i \in 1..Len(D(ds, s)) : D(ds, s)[i].n = n /\ D(ds, s)[i].t = t}
                       IN IF S = {} THEN 0 ELSE D(ds, s)[CHOOSE i \in S : \A j \in S : i <= j].id

\* everything observable about scope s
Obs(ds, s) ==
   [elements |-> Elements(ds, s),
    types    |-> ScopeType(ds, s),
    decls    |-> [i \in 1..Len(D(ds, s)) |->
                    [n |-> D(ds, s)[i].n, t |-> D(ds, s)[i].t, master |-> D(ds, s)[MasterIx(ds, s, i)].id,
                     declset |-> [k \in 1..Len(DeclSetIx(ds, s, i)) |-> D(ds, s)[DeclSetIx(ds, s, i)[k]].id],
                     pos |-> i - 1,
                     \* what else the declaration was given: an alias reports the aliasee it was declared with (one per type)
                     init |-> IF D(ds, s)[i].kind = "alias" THEN D(ds, s)[i].t ELSE 0,
                     \* the clients of these scopes give every declaration specifiers of its own (a function of its identity) right
                     \* after entering it; each declaration keeps its own, whatever is declared or set afterwards
                     spec |-> IF D(ds, s)[i].kind \in HeteroKinds THEN (D(ds, s)[i].id % 7) + 1 ELSE 0]],
    lookup   |-> [n \in AllNames |-> IF Declared(ds, s, n) THEN 1 ELSE 0],
    select   |-> [n \in AllNames |-> [t \in AllTypes |-> Select(ds, s, n, t)]]]

---------------------------------------------------------------------------
(* Invariants: the partition of a scope by (name, type) is the family of   *)
(* declaration-sets; masters are their first elements; selection finds the *)
(* master.                                                                 *)
ScInvariant ==
   \A s \in Scopes : \A i \in 1..Len(decls[s]) :
      /\ MasterIx(decls, s, i) <= i
      /\ DeclSetIx(decls, s, i)[1] = MasterIx(decls, s, i)
      /\ i \in {DeclSetIx(decls, s, i)[k] : k \in 1..Len(DeclSetIx(decls, s, i))}
      /\ Select(decls, s, decls[s][i].n, decls[s][i].t) = decls[s][MasterIx(decls, s, i)].id
      /\ (ScopeKind[s] # "hetero" => MasterIx(decls, s, i) = i /\ Len(DeclSetIx(decls, s, i)) = 1)
\* entering a declaration only appends
AppendOnly == [][\A s \in Scopes : Len(decls'[s]) >= Len(decls[s]) /\ SubSeq(decls'[s], 1, Len(decls[s])) = decls[s]]_scvars
=============================================================================
