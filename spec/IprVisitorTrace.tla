---------------------------- MODULE IprVisitorTrace ----------------------------
(* {"e":"visit","impl":class,"cat":category,"hooks":[..],"entries":n,"views":[..],"sink":s,"nestdepth":d,"nested":n,"strays":k,"innerviews":[..]}  one line per node instance *)
EXTENDS IprVisitor, Json, IOUtils
VARIABLE l
T == ndJsonDeserialize(IOEnv.TRACE)
Ev == T[l]
TInit == l = 1
TVisit == /\ Ev.cat \in Leaves
          /\ Ev.hooks = Chain(Ev.cat)                 \* own hook first, then the defaults up to the sink
          /\ Ev.entries = 1                           \* accept calls exactly one hook
          /\ Ev.handed_other_object = 0               \* ... and every hook on the way to the sink is handed the node itself
          /\ Ev.views = <<Ev.cat>>                    \* view<K> yields the node for its own category only
          /\ Ev.sink = Dispatch(Ev.cat, {})           \* a visitor defining only the sinks receives it there
          \* accept entered again from inside the hook, nestdepth levels deep: the own hook at every level, no other hook, and
          \* view<K> from the innermost hook as from outside
          /\ Ev.nested = Ev.nestdepth /\ Ev.strays = 0 /\ Ev.innerviews = <<Ev.cat>>
TNext == l <= Len(T) /\ TVisit /\ l' = l + 1
TSpec == TInit /\ [][TNext]_l
Accepted == TLCGet("stats").diameter - 1 = Len(T)
=============================================================================
