---------------------------- MODULE IprScopesTrace ----------------------------
(* Binding B for C07: one line per declaration entered,                                                    *)
(*   {"k":kind,"s":scope,"n":name,"t":type,"r":identity,"o":{elements,types,decls},"q":[[n,t,found,sel]..]} *)
(* `o` is the observation of the whole scope after the call (without the lookup matrices), `q` a sample of   *)
(* lookups by name and selections by type, hits and misses.                                                  *)
EXTENDS IprScopes, Json, IOUtils
CONSTANT WithSpec          \* are the specifiers of the declarations part of the judgement? (C05: yes; C07: no, they are C02's and C05's)
VARIABLE l
tvars == <<decls, ndecl, sclast, l>>
T == ndJsonDeserialize(IOEnv.TRACE)
Ev == T[l]
TInit == ScInit /\ l = 1

\* (the aliasee read-back `init` belongs to C02 and is judged on replayed behaviours only: recorded lines do not carry it)
ObsLite(ds, s) == LET o == Obs(ds, s) IN
                  [elements |-> o.elements, types |-> o.types,
                   decls |-> [i \in 1..Len(o.decls) |-> [n |-> o.decls[i].n, t |-> o.decls[i].t, master |-> o.decls[i].master,
                                                          declset |-> o.decls[i].declset, pos |-> o.decls[i].pos,
                                                          spec |-> o.decls[i].spec]]]
SameLite(ev, e) == /\ ev.elements = e.elements /\ ev.types = e.types /\ Len(ev.decls) = Len(e.decls)
                   /\ \A i \in 1..Len(e.decls) :
                         /\ ev.decls[i].n = e.decls[i].n /\ ev.decls[i].t = e.decls[i].t /\ ev.decls[i].master = e.decls[i].master
                         /\ ev.decls[i].declset = e.decls[i].declset /\ ev.decls[i].pos = e.decls[i].pos
                         /\ (WithSpec => ev.decls[i].spec = e.decls[i].spec)

TDeclare == /\ Ev.k # "reset"
            /\ Declare(Ev.s, Ev.k, Ev.n, Ev.t)
            /\ sclast'.r = Ev.r
            /\ Ev.pre = <<IF Declared(decls, Ev.s, Ev.n) THEN 1 ELSE 0, Select(decls, Ev.s, Ev.n, Ev.t)>>   \* asked just before the call
            /\ SameLite(Ev.o, ObsLite(decls', Ev.s))
            /\ \A i \in 1..Len(Ev.q) :
                  /\ Ev.q[i][3] = (IF Declared(decls', Ev.s, Ev.q[i][1]) THEN 1 ELSE 0)
                  /\ Ev.q[i][4] = Select(decls', Ev.s, Ev.q[i][1], Ev.q[i][2])
TReset == Ev.k = "reset" /\ decls' = [s \in Scopes |-> <<>>] /\ ndecl' = 0
          /\ sclast' = [s |-> 0, k |-> "init", n |-> 0, t |-> 0, r |-> 0]
TNext == l <= Len(T) /\ (TDeclare \/ TReset) /\ l' = l + 1
TSpec == TInit /\ [][TNext]_tvars
Accepted == TLCGet("stats").diameter - 1 = Len(T)
=============================================================================
