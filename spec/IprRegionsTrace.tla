---------------------------- MODULE IprRegionsTrace ----------------------------
(* Binding B for C12: {"op":..,"a":[..],"r":first new identity,"o":[entity records the call created]}      *)
EXTENDS IprRegions, Json, IOUtils
VARIABLE l
tvars == <<ent, rglast, l>>
T == ndJsonDeserialize(IOEnv.TRACE)
Ev == T[l]
TInit == RgInit /\ l = 1
TCall == /\ Ev.op # "reset"
         /\ Call(Ev.op, Ev.a)
         /\ rglast'.r = Ev.r
         /\ Ev.o = SubSeq(ent', Len(ent) + 1, Len(ent'))
TReset == Ev.op = "reset" /\ ent' = <<>> /\ rglast' = [op |-> "init", a |-> <<>>, r |-> 0]
TNext == l <= Len(T) /\ (TCall \/ TReset) /\ l' = l + 1
TSpec == TInit /\ [][TNext]_tvars
Accepted == TLCGet("stats").diameter - 1 = Len(T)
=============================================================================
