-------------------------------- MODULE Arena --------------------------------
(***************************************************************************)
(* I-level model of util::string::arena (the storage behind C03).          *)
(* Storage is counted in granules of Hdr bytes; a string of n bytes uses a *)
(* header (length field of Hdr - Pad bytes, then Pad inline bytes) and as  *)
(* many further granules as needed.  A pool has Buf granules; a string     *)
(* longer than Buf *bytes* that does not fit gets a pool of its own.       *)
(*                                                                         *)
(* TLC checks on this model that placements never overlap and always fit,  *)
(* for every sequence of lengths within scaled-down constants; with the    *)
(* real constants the model is used to produce the boundary-directed       *)
(* length sequences replayed into the library.                             *)
(***************************************************************************)
EXTENDS Naturals, Sequences, FiniteSets, TLC

CONSTANTS Hdr, Pad, Buf

VARIABLES caps,      \* Seq(Nat): capacity in granules of every pool ever obtained
          cur,       \* index of the current pool
          nxt,       \* first free granule of the current pool
          placed     \* Seq([pool, off, m, n]): every string placed so far
avars == <<caps, cur, nxt, placed>>

Granules(n) == (n + Hdr - Pad - 1) \div Hdr + 1
Remaining == Buf - nxt

AInit == caps = <<Buf>> /\ cur = 1 /\ nxt = 0 /\ placed = <<>>

Allocate(n) ==
   LET m == Granules(n) IN
   IF m <= Remaining
   THEN /\ placed' = Append(placed, [pool |-> cur, off |-> nxt, m |-> m, n |-> n])
        /\ nxt' = nxt + m
        /\ UNCHANGED <<caps, cur>>
   ELSE IF n > Buf
   THEN \* oversize: a pool of its own, linked behind the current one; the current pool stays current
        /\ caps' = Append(caps, Buf + ((n - Buf) \div Hdr))
        /\ placed' = Append(placed, [pool |-> Len(caps) + 1, off |-> 0, m |-> m, n |-> n])
        /\ UNCHANGED <<cur, nxt>>
   ELSE /\ caps' = Append(caps, Buf)
        /\ cur' = Len(caps) + 1
        /\ placed' = Append(placed, [pool |-> Len(caps) + 1, off |-> 0, m |-> m, n |-> n])
        /\ nxt' = m

NoOverlap == \A i, j \in 1..Len(placed) :
                (i # j /\ placed[i].pool = placed[j].pool) =>
                   (placed[i].off + placed[i].m <= placed[j].off \/ placed[j].off + placed[j].m <= placed[i].off)
Fits == \A i \in 1..Len(placed) : placed[i].off + placed[i].m <= caps[placed[i].pool]
\* the bytes of the string (length field + characters) lie inside its granules
BytesFit == \A i \in 1..Len(placed) : (Hdr - Pad) + placed[i].n <= Hdr * placed[i].m
AValid == NoOverlap /\ Fits /\ BytesFit /\ nxt <= Buf
=============================================================================
