----------------------------- MODULE IprVisitorMC -----------------------------
(* One state per category; prints the chain of hooks the specification demands for it. *)
EXTENDS IprVisitor, Json
VARIABLE cat
Init == cat \in Leaves
Next == UNCHANGED cat
Spec == Init /\ [][Next]_cat
Emit == PrintT(<<"BEH", ToJson([cat |-> cat, chain |-> Chain(cat), sink |-> Dispatch(cat, {}), own |-> Dispatch(cat, {cat}),
                               viasuper |-> Dispatch(cat, {Super(cat)})])>>)
=============================================================================
