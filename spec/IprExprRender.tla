---------------------------- MODULE IprExprRender ----------------------------
(***************************************************************************)
(* Reference renderer for classic expressions (src/io.cxx, the xpr::       *)
(* visitor chain): growth of the specification beyond the listed           *)
(* properties, DESIGN section 5 item 6.                                    *)
(*                                                                         *)
(* The printer is a precedence-climbing printer.  Every expression kind    *)
(* has a home level; a production prints each operand "at" some level.     *)
(* Printing a node at level lv uses the node's own production when its     *)
(* home level is <= lv; otherwise the node is written as                   *)
(*     ( xpr_expr(node) )                                                  *)
(* i.e. parenthesised and printed from the top.  A kind without any        *)
(* production is refused (std::logic_error) when it reaches the top.       *)
(*                                                                         *)
(* Levels: 0 primary, 1 postfix, 2 unary, 3 cast, 4 pm, 5 mul, 6 add,      *)
(* 7 shift, 8 rel, 9 eq, 10 and, 11 xor, 12 ior, 13 land, 14 lor, 15 cond, *)
(* 16 assignment, 17 expression (xpr_expr).                                *)
(*                                                                         *)
(* Terms: <<kind, sub1, ..>>; kinds are factory names of the library       *)
(* (enclosures carry their delimiter: "make_enclosure:1"); the leaves are  *)
(* <<"lit">> (literal 7), <<"id">> (id-expression x), <<"ty">> (int).      *)
(* Text model as in IprRender: token / identifier / raw text over the      *)
(* printer's padding.                                                      *)
(***************************************************************************)
EXTENDS Naturals, Sequences, TLC

Start == [t |-> "", p |-> "None", s |-> "ok"]
Tok(st, x) == IF st.s # "ok" THEN st ELSE [t |-> st.t \o x, p |-> "None", s |-> "ok"]
Idn(st, x) == IF st.s # "ok" THEN st ELSE [t |-> st.t \o (IF st.p = "Before" THEN " " ELSE "") \o x, p |-> "Before", s |-> "ok"]
Raw(st, x) == IF st.s # "ok" THEN st ELSE [st EXCEPT !.t = @ \o x]
Refused(st) == IF st.s # "ok" THEN st ELSE [st EXCEPT !.s = "refused"]

\* pieces of a production
tok(x) == [p |-> "tok", x |-> x, k |-> 0, lv |-> 0]
idn(x) == [p |-> "idn", x |-> x, k |-> 0, lv |-> 0]
raw(x) == [p |-> "raw", x |-> x, k |-> 0, lv |-> 0]
sub(k, lv) == [p |-> "sub", x |-> "", k |-> k, lv |-> lv]      \* operand k printed at level lv
top(k) == sub(k, 17)                                           \* xpr_expr(operand k)
typ == [p |-> "typ", x |-> "", k |-> 0, lv |-> 0]              \* xpr_type of the type operand (always int here)
lst(k) == [p |-> "lst", x |-> "", k |-> k, lv |-> 0]           \* operand k is an expression list: comma separated xpr_expr

Binary(l, r, op) == <<sub(1, l), tok(" "), raw(op), tok(" "), sub(2, r)>>
Prefix(op) == <<tok(op), sub(1, 3)>>
NewStyleCast(op) == <<idn(op), tok("<|"), typ, tok("|>"), tok("("), top(1), tok(")")>>
P(lv, ps) == [lv |-> lv, ps |-> ps]

Prod ==
   [ \* -- primary
     make_enclosure_0 |-> P(0, <<top(1)>>),
     make_enclosure_1 |-> P(0, <<tok("("), top(1), tok(")")>>),
     make_enclosure_2 |-> P(0, <<tok("{"), top(1), tok("}")>>),
     make_enclosure_3 |-> P(0, <<tok("["), top(1), tok("]")>>),
     make_enclosure_4 |-> P(0, <<tok("<"), top(1), tok(">")>>),
     \* -- postfix
     make_array_ref |-> P(1, <<sub(1, 1), tok("["), top(2), tok("]")>>),
     make_dot |-> P(1, <<sub(1, 1), tok("."), sub(2, 0)>>),
     make_arrow |-> P(1, <<sub(1, 1), tok("->"), sub(2, 0)>>),
     make_call |-> P(1, <<sub(1, 1), tok("("), lst(2), tok(")")>>),
     make_post_decrement |-> P(1, <<sub(1, 1), tok("--")>>),
     make_post_increment |-> P(1, <<sub(1, 1), tok("++")>>),
     make_dynamic_cast |-> P(1, NewStyleCast("dynamic_cast")),
     make_static_cast |-> P(1, NewStyleCast("static_cast")),
     make_const_cast |-> P(1, NewStyleCast("const_cast")),
     make_reinterpret_cast |-> P(1, NewStyleCast("reinterpret_cast")),
     make_typeid |-> P(1, <<idn("typeid"), tok("("), top(1), tok(")")>>),
     make_noexcept |-> P(1, <<idn("noexcept"), tok("("), top(1), tok(")")>>),
     \* -- unary
     make_pre_decrement |-> P(2, Prefix("--")),
     make_pre_increment |-> P(2, Prefix("++")),
     make_address |-> P(2, Prefix("&")),
     make_complement |-> P(2, Prefix("~")),
     make_deref |-> P(2, Prefix("*")),
     make_unary_minus |-> P(2, Prefix("-")),
     make_not |-> P(2, Prefix("!")),
     make_unary_plus |-> P(2, <<tok("+"), top(1)>>),
     make_sizeof |-> P(2, <<idn("sizeof"), tok(" "), top(1)>>),
     make_args_cardinality |-> P(2, <<idn("sizeof"), tok("..."), tok("("), top(1), tok(")")>>),
     make_delete |-> P(2, <<idn("delete"), tok(" "), sub(1, 3)>>),
     make_array_delete |-> P(2, <<idn("delete[]"), tok(" "), sub(1, 3)>>),
     \* -- cast
     make_cast |-> P(3, NewStyleCast("cast")),
     \* -- pointer to member
     make_dot_star |-> P(4, <<sub(1, 4), raw(".*"), sub(2, 3)>>),
     make_arrow_star |-> P(4, <<sub(1, 4), raw("->*"), sub(2, 3)>>),
     \* -- binary operators, left associative
     make_mul |-> P(5, Binary(5, 4, "*")), make_div |-> P(5, Binary(5, 4, "/")), make_modulo |-> P(5, Binary(5, 4, "%")),
     make_plus |-> P(6, Binary(6, 5, "+")), make_minus |-> P(6, Binary(6, 5, "-")),
     make_lshift |-> P(7, Binary(7, 6, "<<")), make_rshift |-> P(7, Binary(7, 6, ">>")),
     make_less |-> P(8, Binary(8, 7, "<")), make_less_equal |-> P(8, Binary(8, 7, "<=")),
     make_greater |-> P(8, Binary(8, 7, ">")), make_greater_equal |-> P(8, Binary(8, 7, ">=")),
     make_equal |-> P(9, Binary(9, 8, "==")), make_not_equal |-> P(9, Binary(9, 8, "!=")),
     make_bitand |-> P(10, Binary(10, 9, "&")),
     make_bitxor |-> P(11, Binary(11, 10, "^")),
     make_bitor |-> P(12, Binary(12, 11, "|")),
     make_and |-> P(13, Binary(13, 12, "&&")),
     make_or |-> P(14, Binary(14, 13, "||")),
     \* -- conditional
     make_conditional |-> P(15, <<sub(1, 14), tok(" ? "), top(2), tok(" : "), sub(3, 16)>>),
     \* -- assignment, right associative
     make_assign |-> P(16, Binary(14, 16, "=")), make_plus_assign |-> P(16, Binary(14, 16, "+=")),
     make_minus_assign |-> P(16, Binary(14, 16, "-=")), make_mul_assign |-> P(16, Binary(14, 16, "*=")),
     make_div_assign |-> P(16, Binary(14, 16, "/=")), make_modulo_assign |-> P(16, Binary(14, 16, "%=")),
     make_bitand_assign |-> P(16, Binary(14, 16, "&=")), make_bitor_assign |-> P(16, Binary(14, 16, "|=")),
     make_bitxor_assign |-> P(16, Binary(14, 16, "^=")), make_lshift_assign |-> P(16, Binary(14, 16, "<<=")),
     make_rshift_assign |-> P(16, Binary(14, 16, ">>=")),
     make_throw |-> P(16, <<idn("throw"), tok(" "), sub(1, 16)>>),
     \* -- expression
     make_comma |-> P(17, <<top(1), tok("@, "), sub(2, 16)>>),
     make_member_init |-> P(17, <<top(1), tok("("), top(2), tok(")")>>) ]

\* kinds the printer has no production for: refused wherever they appear
NoProduction == {"make_expansion", "make_alignof", "make_demotion", "make_promotion", "make_read", "make_materialization",
                 "make_restriction", "make_rewrite"}
Kinds == DOMAIN Prod \cup NoProduction
\* number of expression operands of a kind (type operands and optional result types are supplied by the harness)
Arity(k) == IF k \in NoProduction THEN (IF k = "make_rewrite" THEN 2 ELSE 1)
            ELSE IF k = "make_conditional" THEN 3
            ELSE IF \E i \in 1..Len(Prod[k].ps) : Prod[k].ps[i].k = 2 THEN 2 ELSE 1
ListSlot(k, i) == k \in DOMAIN Prod /\ \E j \in 1..Len(Prod[k].ps) : Prod[k].ps[j].p = "lst" /\ Prod[k].ps[j].k = i

RECURSIVE At(_, _, _), Pieces(_, _, _, _), List(_, _, _)

\* term t printed at level lv
At(st, t, lv) ==
   IF st.s # "ok" THEN st
   ELSE CASE t[1] = "lit" -> Raw(st, "7")
          [] t[1] = "id" -> Idn(st, "x")
          [] t[1] = "ty" -> Idn(st, "int")
          [] t[1] \in DOMAIN Prod /\ Prod[t[1]].lv <= lv -> Pieces(st, t, Prod[t[1]].ps, 1)
          [] lv = 17 -> Refused(st)
          [] OTHER -> Tok(At(Tok(st, "("), t, 17), ")")

Pieces(st, t, ps, i) ==
   IF i > Len(ps) THEN st
   ELSE LET q == ps[i]
            nx == CASE q.p = "tok" -> Tok(st, q.x)
                    [] q.p = "idn" -> Idn(st, q.x)
                    [] q.p = "raw" -> Raw(st, q.x)
                    [] q.p = "typ" -> Idn(st, "int")
                    [] q.p = "sub" -> At(st, t[q.k + 1], q.lv)
                    [] q.p = "lst" -> List(st, t[q.k + 1], 1)
        IN Pieces(nx, t, ps, i + 1)

\* an expression list operand is the sequence of its element terms
List(st, ts, i) == IF i > Len(ts) THEN st ELSE List(At(IF i = 1 THEN st ELSE Raw(st, ", "), ts[i], 17), ts, i + 1)

Render(t) == LET r == At(Start, t, 17) IN [s |-> r.s, t |-> IF r.s = "ok" THEN r.t ELSE ""]
=============================================================================
