---- MODULE IprLedgerMC_TTrace_1790855627 ----
EXTENDS Sequences, TLCExt, Toolbox, Naturals, TLC, IprLedgerMC

_expression ==
    LET IprLedgerMC_TEExpression == INSTANCE IprLedgerMC_TEExpression
    IN IprLedgerMC_TEExpression!expression
----

_trace ==
    LET IprLedgerMC_TETrace == INSTANCE IprLedgerMC_TETrace
    IN IprLedgerMC_TETrace!trace
----

_inv ==
    ~(
        TLCGet("level") = Len(_TETrace)
        /\
        phase = ("dead")
        /\
        ever = ({1})
        /\
        owned = ({})
        /\
        forgotten = ({1})
        /\
        live = ({1})
        /\
        open = (TRUE)
        /\
        base = ({})
    )
----

_init ==
    /\ ever = _TETrace[1].ever
    /\ forgotten = _TETrace[1].forgotten
    /\ live = _TETrace[1].live
    /\ owned = _TETrace[1].owned
    /\ open = _TETrace[1].open
    /\ phase = _TETrace[1].phase
    /\ base = _TETrace[1].base
----

_next ==
    /\ \E i,j \in DOMAIN _TETrace:
        /\ \/ /\ j = i + 1
              /\ i = TLCGet("level")
        /\ ever  = _TETrace[i].ever
        /\ ever' = _TETrace[j].ever
        /\ forgotten  = _TETrace[i].forgotten
        /\ forgotten' = _TETrace[j].forgotten
        /\ live  = _TETrace[i].live
        /\ live' = _TETrace[j].live
        /\ owned  = _TETrace[i].owned
        /\ owned' = _TETrace[j].owned
        /\ open  = _TETrace[i].open
        /\ open' = _TETrace[j].open
        /\ phase  = _TETrace[i].phase
        /\ phase' = _TETrace[j].phase
        /\ base  = _TETrace[i].base
        /\ base' = _TETrace[j].base

\* Uncomment the ASSUME below to write the states of the error trace
\* to the given file in Json format. Note that you can pass any tuple
\* to `JsonSerialize`. For example, a sub-sequence of _TETrace.
    \* ASSUME
    \*     LET J == INSTANCE Json
    \*         IN J!JsonSerialize("IprLedgerMC_TTrace_1790855627.json", _TETrace)

=============================================================================

 Note that you can extract this module `IprLedgerMC_TEExpression`
  to a dedicated file to reuse `expression` (the module in the 
  dedicated `IprLedgerMC_TEExpression.tla` file takes precedence 
  over the module `IprLedgerMC_TEExpression` below).

---- MODULE IprLedgerMC_TEExpression ----
EXTENDS Sequences, TLCExt, Toolbox, Naturals, TLC, IprLedgerMC

expression == 
    [
        \* To hide variables of the `IprLedgerMC` spec from the error trace,
        \* remove the variables below.  The trace will be written in the order
        \* of the fields of this record.
        ever |-> ever
        ,forgotten |-> forgotten
        ,live |-> live
        ,owned |-> owned
        ,open |-> open
        ,phase |-> phase
        ,base |-> base
        
        \* Put additional constant-, state-, and action-level expressions here:
        \* ,_stateNumber |-> _TEPosition
        \* ,_everUnchanged |-> ever = ever'
        
        \* Format the `ever` variable as Json value.
        \* ,_everJson |->
        \*     LET J == INSTANCE Json
        \*     IN J!ToJson(ever)
        
        \* Lastly, you may build expressions over arbitrary sets of states by
        \* leveraging the _TETrace operator.  For example, this is how to
        \* count the number of times a spec variable changed up to the current
        \* state in the trace.
        \* ,_everModCount |->
        \*     LET F[s \in DOMAIN _TETrace] ==
        \*         IF s = 1 THEN 0
        \*         ELSE IF _TETrace[s].ever # _TETrace[s-1].ever
        \*             THEN 1 + F[s-1] ELSE F[s-1]
        \*     IN F[_TEPosition - 1]
    ]

=============================================================================



Parsing and semantic processing can take forever if the trace below is long.
 In this case, it is advised to uncomment the module below to deserialize the
 trace from a generated binary file.

\*
\*---- MODULE IprLedgerMC_TETrace ----
\*EXTENDS IOUtils, TLC, IprLedgerMC
\*
\*trace == IODeserialize("IprLedgerMC_TTrace_1790855627.bin", TRUE)
\*
\*=============================================================================
\*

---- MODULE IprLedgerMC_TETrace ----
EXTENDS TLC, IprLedgerMC

trace == 
    <<
    ([phase |-> "idle",ever |-> {},owned |-> {},forgotten |-> {},live |-> {},open |-> FALSE,base |-> {}]),
    ([phase |-> "alive",ever |-> {},owned |-> {},forgotten |-> {},live |-> {},open |-> TRUE,base |-> {}]),
    ([phase |-> "alive",ever |-> {1},owned |-> {},forgotten |-> {1},live |-> {1},open |-> TRUE,base |-> {}]),
    ([phase |-> "dead",ever |-> {1},owned |-> {},forgotten |-> {1},live |-> {1},open |-> TRUE,base |-> {}])
    >>
----


=============================================================================

---- CONFIG IprLedgerMC_TTrace_1790855627 ----
CONSTANTS
    Ids = { 1 , 2 , 3 }
    Leaky = TRUE

INVARIANT
    _inv

CHECK_DEADLOCK
    \* CHECK_DEADLOCK off because of PROPERTY or INVARIANT above.
    FALSE

INIT
    _init

NEXT
    _next

CONSTANT
    _TETrace <- _trace

ALIAS
    _expression
=============================================================================
\* Generated on Thu Oct 01 11:53:48 UTC 2026