------------------------------ MODULE IprPrinter ------------------------------
(***************************************************************************)
(* The pretty-printer's control state and what a print may do to it        *)
(* (property C18), and the relation between printed texts (property C17).  *)
(*                                                                         *)
(* Control state of a printer and its stream:                              *)
(*   [indent, base, flags, fill, width, prec]                              *)
(* A print of one top-level declaration, statement, type or expression     *)
(* either completes or is refused with std::logic_error; in both cases the *)
(* control state is left as found.  The bytes written contain no control   *)
(* byte other than newline unless a spelling of the printed graph contains *)
(* that byte.  Every number the printer writes is the decimal numeral of   *)
(* its value.                                                              *)
(***************************************************************************)
EXTENDS Naturals, Integers, Sequences, FiniteSets, TLC

VARIABLES pst,       \* control state of the current printer + stream
          texts      \* C17: [program key -> bytes] first text seen for a (program, options) pair
prvars == <<pst, texts>>

Fresh == [indent |-> 0, base |-> "dec", flags |-> 0, fill |-> 32, width |-> 0, prec |-> 6]

RECURSIVE Dec(_)
Dec(n) == IF n < 10 THEN <<48 + n>> ELSE Dec(n \div 10) \o <<48 + (n % 10)>>       \* decimal numeral as bytes

Outcomes == {"ok", "logic_error"}

PrInit == pst = Fresh /\ texts = <<>>

NewPrinter == pst' = Fresh /\ UNCHANGED texts

\* one complete print through an entry point; `before`/`after` are the observed control states, `ctl` the control
\* bytes (other than newline) in the output, `spelled` the control bytes occurring in spellings of the printed graph
DoPrint(out, before, after, ctl, spelled) ==
   /\ out \in Outcomes
   /\ before = pst
   \* a completed print leaves everything as found; a refused one may stop anywhere inside its layout, but the
   \* stream's formatting state is still untouched
   /\ IF out = "ok" THEN after = before ELSE [after EXCEPT !.indent = before.indent] = before
   /\ \A b \in {ctl[i] : i \in 1..Len(ctl)} : b \in {spelled[i] : i \in 1..Len(spelled)}
   /\ pst' = after
   /\ UNCHANGED texts

\* a number (position, nesting level, file/line/column) written on the same stream
Number(value, bytes) == bytes = Dec(value) /\ UNCHANGED prvars

\* the location prefix of a statement that carries a location
LocPrefix(loc) == <<70>> \o Dec(loc[1]) \o <<58>> \o Dec(loc[2]) \o (IF loc[3] # 0 THEN <<58>> \o Dec(loc[3]) ELSE <<>>) \o <<32>>

\* C17: the text of a program under given options depends on nothing else
SameText(key, bytes) ==
   /\ IF key \in DOMAIN texts THEN texts[key] = bytes /\ UNCHANGED texts
      ELSE texts' = (key :> bytes) @@ texts
   /\ UNCHANGED pst
=============================================================================
