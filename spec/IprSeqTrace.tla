------------------------------ MODULE IprSeqTrace ------------------------------
(* Binding B for C14/C15:                                                                                          *)
(*  {"e":"new","kind":k}  {"e":"push","r":n,"o":Obs}  {"e":"obs","o":Obs}          sequences of every implementation    *)
(*  {"e":"derived","name":..., ...}     a convenience operation together with the primitives it is defined from         *)
(*  {"e":"equality","sort":..,"spell":[..],"eq":[[..]..],"ne":[[..]..]}  operator== / != on all pairs of some values     *)
(*  {"e":"optional","valid":b,"get":outcome}                                                                            *)
EXTENDS IprSeq, Json, IOUtils
VARIABLE l
tvars == <<s, sqlast, l>>
T == ndJsonDeserialize(IOEnv.TRACE)
Ev == T[l]
TInit == SqInit /\ l = 1

\* helpers that do not exist for a kind are logged as the value they would have (the harness copies size/at)
SameObs(o, q) == LET e == Obs(q) IN
                 /\ o.first = e.first /\ o.atrev = e.atrev /\ o.size = e.size /\ o.empty = e.empty /\ o.at = e.at /\ o.atmax = e.atmax /\ o.huge = e.huge /\ o.iter = e.iter /\ o.riter = e.riter /\ o.post = e.post /\ o.rpost = e.rpost /\ o.fwalk = e.fwalk /\ o.rwalk = e.rwalk /\ o.eqd = e.eqd /\ o.eqo = e.eqo /\ o.bend = e.bend
                 /\ o.steps = e.steps /\ o.hsize = e.hsize /\ o.hat = e.hat

TNew == Ev.e = "new" /\ s' = <<>> /\ sqlast' = [op |-> "init", r |-> 0]
TPush == Ev.e = "push" /\ Push /\ sqlast'.r = Ev.r /\ SameObs(Ev.o, s')
TObs == Ev.e = "obs" /\ SameObs(Ev.o, s) /\ UNCHANGED sqvars
\* a fixed-size sequence presented whole
TWhole == Ev.e = "whole" /\ s' = [i \in 1..Ev.n |-> i] /\ sqlast' = [op |-> "whole", r |-> Ev.n] /\ SameObs(Ev.o, s')

Implies(a, b) == ~a \/ b
TDerived == /\ Ev.e = "derived"
            /\ CASE Ev.name = "try_block" -> Ev.derived = (Ev.handlers # 0)          \* a try-block is a block with handlers
                 [] Ev.name = "udt_scope" -> Ev.same = TRUE                         \* Udt::scope() is region().bindings()
                 [] Ev.name = "udt_members" -> Ev.same = TRUE                       \* members() is scope().elements()
                 [] Ev.name = "block_body" -> Ev.same = TRUE                        \* Block::body() is region().body()
                 [] Ev.name = "template_parameters" -> Ev.same = TRUE               \* parameters() is mapping().parameters()
                 [] Ev.name = "template_result" -> Ev.same = TRUE                   \* result() is mapping().result()
                 [] Ev.name = "where_attendant" -> Ev.same = TRUE                   \* attendant() is second() is the region's bindings
                 [] Ev.name = "default_value" -> Ev.derived = Ev.initializer        \* default_value() is initializer()
                 [] Ev.name = "type_linkage" -> Ev.same = TRUE                      \* linkage() is transfer().linkage()
                 [] Ev.name = "scope_size" -> Ev.derived = Ev.elements              \* Scope::size() is elements().size()
                 [] OTHER -> FALSE
            /\ UNCHANGED sqvars
\* equality is an equivalence that holds exactly for equal spellings; != is its negation
TEquality == /\ Ev.e = "equality"
             /\ \A i \in 1..Len(Ev.spell) : \A j \in 1..Len(Ev.spell) :
                   /\ Ev.eq[i][j] = (Ev.spell[i] = Ev.spell[j])
                   /\ Ev.ne[i][j] = ~Ev.eq[i][j]
             /\ UNCHANGED sqvars
\* an empty Optional is a valid answer; get() on it is refused; a valid one yields
TOptional == /\ Ev.e = "optional"
             /\ Ev.get = (IF Ev.valid THEN "ok" ELSE "refused")
             /\ UNCHANGED sqvars
TNext == l <= Len(T) /\ (TNew \/ TPush \/ TObs \/ TWhole \/ TDerived \/ TEquality \/ TOptional) /\ l' = l + 1
TSpec == TInit /\ [][TNext]_tvars
Accepted == TLCGet("stats").diameter - 1 = Len(T)
=============================================================================
