------------------------------ MODULE RBTreeMC ------------------------------
(* Exhaustive exploration of insertion sequences (I-level), R-level invariants checked in every state,     *)
(* and emission of every sequence of length Depth with the predicted shape after each insertion.           *)
EXTENDS RBTree, Json

CONSTANTS Keys, Depth, Owning, Record

VARIABLES t, inserted, hist, n
vars == <<t, inserted, hist, n>>

Init == t = EmptyTree /\ inserted = {} /\ hist = <<>> /\ n = 0

Ins(k) == /\ t' = Insert(t, k, Owning)
          /\ inserted' = inserted \cup {k}
          /\ n' = n + 1
          /\ hist' = IF Record
                     THEN Append(hist, [k |-> k, dup |-> (k \in inserted), found |-> IF Find(t', k) = Nil THEN 0 ELSE t'.key[Find(t', k)], t |-> t'])
                     ELSE <<>>

Next == n < Depth /\ \E k \in Keys : Ins(k)
Spec == Init /\ [][Next]_vars

Valid == /\ ValidShape(t)
         /\ KeysExact(t, inserted)
         /\ \A k \in inserted : Find(t, k) # Nil /\ t.key[Find(t, k)] = k
         /\ \A k \in Keys \ inserted : Find(t, k) = Nil
         /\ (Owning => t.count = NodeCount(t))

\* owning flavour: an equal key changes nothing at all
DupIsNoop == [][\A k \in inserted : (Owning /\ t' = Insert(t, k, Owning)) => (t' = t \/ \E k2 \in Keys \ inserted : t' = Insert(t, k2, Owning))]_vars

Emit == (Record /\ n = Depth) => PrintT(<<"BEH", ToJson(hist)>>)
=============================================================================
