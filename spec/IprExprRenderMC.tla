--------------------------- MODULE IprExprRenderMC ---------------------------
(* Binding A for IprExprRender: every term of nesting depth <= 2 (each operand slot of each kind filled by each kind), *)
(* one initial state per term, printed with the text the printer must write; replayed by `make replay-render`.         *)
EXTENDS IprExprRender, Json
CONSTANTS Depth2Kinds      \* the kinds used as the outer node of depth-2 terms ("all" = every kind)

L == <<"lit">>
X == <<"id">>
Lists == {<<>>, <<L>>, <<X, L>>}
\* all terms of kind k whose operands are drawn from S (list operands from Lists)
TermsOf(k, S) ==
   LET a == Arity(k) IN
   IF a = 1 THEN {<<k, s>> : s \in (IF ListSlot(k, 1) THEN Lists ELSE S)}
   ELSE IF a = 2 THEN {<<k, s1, s2>> : s1 \in S, s2 \in (IF ListSlot(k, 2) THEN Lists ELSE S)}
   ELSE {<<k, s1, s2, s3>> : s1 \in S, s2 \in S, s3 \in S}
D1 == UNION {TermsOf(k, {L, X, <<"ty">>}) : k \in Kinds}
Inner == UNION {TermsOf(k, {L}) : k \in Kinds}                       \* one inner term per kind (lists: three)
Outer == IF Depth2Kinds = {"all"} THEN Kinds ELSE Depth2Kinds
\* depth 2: one slot holds an inner term, the others the identifier; for binary kinds also inner terms in both slots
OneSlot(k) ==
   LET a == Arity(k) IN
   IF a = 1 THEN (IF ListSlot(k, 1) THEN {<<k, <<i>> >> : i \in Inner} ELSE {<<k, i>> : i \in Inner})
   ELSE IF a = 2 THEN {<<k, i, IF ListSlot(k, 2) THEN <<X>> ELSE X>> : i \in Inner}
                      \cup (IF ListSlot(k, 2) THEN {<<k, X, <<i, L>> >> : i \in Inner} ELSE {<<k, X, i>> : i \in Inner})
   ELSE {<<k, i, X, X>> : i \in Inner} \cup {<<k, X, i, X>> : i \in Inner} \cup {<<k, X, X, i>> : i \in Inner}
D2 == UNION {OneSlot(k) : k \in Outer}
Both == UNION {{<<k, i, j>> : i \in TermsOf(k, {L}), j \in TermsOf(k, {X})} : k \in {x \in Outer : Arity(x) = 2 /\ ~ListSlot(x, 2)}}

VARIABLE term
Init == term \in D1 \cup D2 \cup Both
Next == UNCHANGED term
Spec == Init /\ [][Next]_term
Emit == PrintT(<<"BEH", ToJson([t |-> term, txt |-> Render(term)])>>)
=============================================================================
