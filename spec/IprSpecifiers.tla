---------------------------- MODULE IprSpecifiers ----------------------------
(***************************************************************************)
(* Specifier and qualifier sets (property C10): a set of basic names is    *)
(* the abstract value; the library's enumeration-typed coordinates are a   *)
(* representation of it.  `family` is "spec" or "qual".                    *)
(*                                                                         *)
(* State: three registers per family holding sets, combined by the         *)
(* operations the interface offers (coordinate of a name, |, &, ^).  What  *)
(* is observable: the decomposition of a register (a list of basic names), *)
(* `implies` between registers, and the named accessors of the Lexicon.    *)
(***************************************************************************)
EXTENDS Naturals, Sequences, FiniteSets, TLC

\* The documented bases (C++ decl-specifiers that are not type specifiers, access labels, `=0`; cv-qualifiers).
SpecBasis == {"=0", "export", "public", "protected", "private", "consteval", "constexpr", "constinit", "explicit",
              "extern", "friend", "inline", "mutable", "register", "static", "thread_local", "typedef", "virtual"}
QualBasis == {"const", "volatile", "restrict"}
Basis(family) == IF family = "spec" THEN SpecBasis ELSE QualBasis

\* accessor of ipr::Lexicon -> the name whose coordinate it must equal
AccessorName ==
   [export_specifier |-> "export", static_specifier |-> "static", extern_specifier |-> "extern",
    mutable_specifier |-> "mutable", thread_local_specifier |-> "thread_local", register_specifier |-> "register",
    inline_specifier |-> "inline", constexpr_specifier |-> "constexpr", consteval_specifier |-> "consteval",
    virtual_specifier |-> "virtual", abstract_specifier |-> "=0", explicit_specifier |-> "explicit",
    friend_specifier |-> "friend", typedef_specifier |-> "typedef", public_specifier |-> "public",
    protected_specifier |-> "protected", private_specifier |-> "private",
    const_qualifier |-> "const", volatile_qualifier |-> "volatile", restrict_qualifier |-> "restrict"]

Regs == 1..3
VARIABLES spec, qual      \* [Regs -> SUBSET basis]
svars == <<spec, qual>>

Reg(family) == IF family = "spec" THEN spec ELSE qual
SetReg(family, f) == IF family = "spec" THEN spec' = f /\ UNCHANGED qual ELSE qual' = f /\ UNCHANGED spec

SymDiff(A, B) == (A \ B) \cup (B \ A)

\* dst := coordinate of basic name n  (refused for names outside the basis: no step)
Coord(family, dst, n) == n \in Basis(family) /\ SetReg(family, [Reg(family) EXCEPT ![dst] = {n}])
Clear(family, dst) == SetReg(family, [Reg(family) EXCEPT ![dst] = {}])
Or(family, dst, a, b) == SetReg(family, [Reg(family) EXCEPT ![dst] = Reg(family)[a] \cup Reg(family)[b]])
And(family, dst, a, b) == SetReg(family, [Reg(family) EXCEPT ![dst] = Reg(family)[a] \cap Reg(family)[b]])
Xor(family, dst, a, b) == SetReg(family, [Reg(family) EXCEPT ![dst] = SymDiff(Reg(family)[a], Reg(family)[b])])

Implies(family, a, b) == Reg(family)[b] \subseteq Reg(family)[a]      \* implies(a, b): a has every element of b

SInit == spec = [r \in Regs |-> {}] /\ qual = [r \in Regs |-> {}]

\* A decomposition (a list of names) denotes a set exactly: nothing lost, invented or repeated.
IsDecompositionOf(list, S) == Len(list) = Cardinality(S) /\ {list[i] : i \in 1..Len(list)} = S

TypeOK == /\ \A r \in Regs : spec[r] \subseteq SpecBasis /\ qual[r] \subseteq QualBasis
=============================================================================
