----------------------------- MODULE IprRegionsMC -----------------------------
EXTENDS IprRegions, Json
CONSTANTS Depth, Ops, Levels, Targets, Record
VARIABLES hist, steps
vars == <<ent, rglast, hist, steps>>

\* "bound who is addressed": a call is aimed at the root region, the newest region, or the newest-but-one
RegionTargets == LET R == Regions(ent)
                     top(S) == IF S = {} THEN {} ELSE {CHOOSE x \in S : \A y \in S : y <= x}
                 IN IF Targets = "all" THEN R
                    ELSE top(R) \cup top(R \ top(R)) \cup {CHOOSE x \in R : \A y \in R : x <= y}
EntTargets(cs) == LET S == {i \in 1..Len(ent) : ent[i].c \in cs} IN
                  IF Targets = "all" THEN S
                  ELSE {x \in S : Cardinality({y \in S : y > x}) < 2}

Args(op) ==
   CASE op \in {"make_unit", "make_module"} -> {<<>>}
     [] op = "make_module_unit" -> {<<m>> : m \in EntTargets({"Module"})}
     [] op \in {"make_mapping", "make_lambda", "make_requires", "make_function_morphism"} ->
           {<<p, v>> : p \in RegionTargets, v \in Levels}
     [] op = "new_handler" -> {<<b>> : b \in {x \in EntTargets({"Block"}) : ent[x].lvl = 0}}
     [] op = "add_param" -> {<<m>> : m \in EntTargets({"Mapping", "Lambda", "Requires", "Morphism"})}
     [] op = "add_enumerator" -> {<<e>> : e \in EntTargets({"Enum"})}
     [] op = "declare_base" -> {<<c>> : c \in EntTargets({"Class"})}
     [] OTHER -> {<<p>> : p \in RegionTargets}

Init == /\ ent = Effects(<<>>, "make_unit", <<>>)
        /\ rglast = [op |-> "make_unit", a |-> <<>>, r |-> 1]
        /\ hist = (IF Record THEN <<[ev |-> [op |-> "make_unit", a |-> <<>>, r |-> 1], o |-> Effects(<<>>, "make_unit", <<>>)]>> ELSE <<>>)
        /\ steps = 0
Next == /\ steps < Depth
        /\ \E op \in Ops : \E a \in Args(op) :
              /\ Call(op, a)
              /\ steps' = steps + 1
              /\ hist' = (IF Record THEN Append(hist, [ev |-> rglast', o |-> SubSeq(ent', Len(ent) + 1, Len(ent'))]) ELSE hist)
Spec == Init /\ [][Next]_vars
Emit == (Record /\ steps = Depth) => PrintT(<<"BEH", ToJson(hist)>>)
GrowsMC == [][Len(ent') >= Len(ent) /\ SubSeq(ent', 1, Len(ent)) = ent]_vars
=============================================================================
