--------------------------- MODULE IprSpecifiersMC ---------------------------
(* All subsets of the active part of the basis are reached in register 1 (by or-ing coordinates); for every    *)
(* such state TLC prints the subset together with what the interface must answer: its decomposition, and for   *)
(* every probe set Y of a fixed family the results of |, &, ^ and implies.  The replayer evaluates the same on  *)
(* the real library.  The algebraic laws are checked on the model as invariants.                               *)
EXTENDS IprSpecifiers, Json

CONSTANTS Family, Active, Probes, Record      \* Probes: a set of subsets of the basis used as second operands

VARIABLE cur
vars == <<cur, spec, qual>>

Init == cur = {} /\ SInit
Next == \E n \in Active : n \notin cur /\ cur' = cur \cup {n} /\ UNCHANGED svars
Spec == Init /\ [][Next]_vars

\* a listing of a set in a fixed (arbitrary) order
Order == <<"=0", "export", "public", "protected", "private", "consteval", "constexpr", "constinit", "explicit",
           "extern", "friend", "inline", "mutable", "register", "static", "thread_local", "typedef", "virtual",
           "const", "volatile", "restrict">>
SetToSeq(S) == SelectSeq(Order, LAMBDA n : n \in S)

Laws == \A Y \in Probes :
          /\ (cur \cup Y) \cap cur = cur                               \* absorption
          /\ SymDiff(SymDiff(cur, Y), Y) = cur                         \* xor is an involution
          /\ (Y \subseteq cur) <=> ((cur \cap Y) = Y)                  \* implies = superset
          /\ Cardinality(cur \cup Y) + Cardinality(cur \cap Y) = Cardinality(cur) + Cardinality(Y)

Emit == Record => PrintT(<<"BEH", ToJson([family |-> Family, x |-> SetToSeq(cur),
                   probes |-> [Y \in Probes |-> [y |-> SetToSeq(Y), or |-> SetToSeq(cur \cup Y), and |-> SetToSeq(cur \cap Y),
                                                 xor |-> SetToSeq(SymDiff(cur, Y)), imp |-> (Y \subseteq cur),
                                                 pmi |-> (cur \subseteq Y)]]])>>)
=============================================================================
