----------------------------- MODULE IprPrinterMC -----------------------------
(* Statement trees offered to the printer: every tree of nesting depth <= Depth over the statement constructs, as a   *)
(* term; one initial state per tree.  Each tree is built and printed by the harness (as a statement, followed by a    *)
(* position and a nesting level on the same stream) and the resulting events are judged by IprPrinterTrace.           *)
EXTENDS Naturals, Sequences, FiniteSets, TLC, Json
CONSTANTS Depth, Leaves, Unary, MaxBlock

T1(k, sub) == {<<k, s>> : s \in sub}
RECURSIVE Trees(_)
Trees(d) ==
   IF d = 0 THEN {<<x>> : x \in Leaves}
   ELSE LET sub == Trees(d - 1)
            blocks == UNION {[1..n -> sub] : n \in 0..MaxBlock}
        IN sub
           \cup {<<"block", b>> : b \in blocks}
           \cup UNION {T1(k, sub) : k \in Unary}
           \cup {<<"ifelse", s1, s2>> : s1 \in sub, s2 \in sub}
           \cup {<<"try", b, h>> : b \in {x \in blocks : Len(x) <= 1}, h \in {<<s>> : s \in sub} \cup {<<s, s>> : s \in {<<y>> : y \in Leaves}}}

VARIABLE tree
Init == tree \in Trees(Depth)
Next == UNCHANGED tree
Spec == Init /\ [][Next]_tree
Emit == PrintT(<<"BEH", ToJson(tree)>>)
=============================================================================
