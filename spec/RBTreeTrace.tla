----------------------------- MODULE RBTreeTrace -----------------------------
(* R-level validation of shapes observed on the real trees: one line per insertion / lookup.               *)
(*   {"e":"new","owning":b}                                     a fresh tree                                 *)
(*   {"e":"ins","k":key,"ret":key returned,"size":n,"shape":1|0,"t":{root,key,left,right,parent,red}}     *)
(*   {"e":"find","k":key,"found":0|1}                                                                       *)
EXTENDS RBTree, Json, IOUtils

VARIABLES inserted, tree, current, owning, ncalls, l
tvars == <<inserted, tree, current, owning, ncalls, l>>

T == ndJsonDeserialize(IOEnv.TRACE)
Ev == T[l]

TInit == inserted = {} /\ tree = EmptyTree /\ current = TRUE /\ owning = TRUE /\ ncalls = 0 /\ l = 1

ShapeOf(e) == [root |-> e.t.root, key |-> e.t.key, left |-> e.t.left, right |-> e.t.right,
               parent |-> e.t.parent, red |-> e.t.red, count |-> e.size]

TNew == /\ Ev.e = "new"
        /\ inserted' = {} /\ tree' = EmptyTree /\ current' = TRUE /\ owning' = Ev.owning /\ ncalls' = 0

TIns == /\ Ev.e = "ins"
        /\ inserted' = inserted \cup {Ev.k}
        /\ ncalls' = ncalls + 1
        /\ Ev.ret = Ev.k                                      \* the element returned carries the requested key
        /\ (owning => Ev.size = Cardinality(inserted'))       \* an equal key adds nothing (owning flavour)
        /\ IF Ev.shape = 1 THEN tree' = ShapeOf(Ev) /\ current' = TRUE
           ELSE tree' = tree /\ current' = FALSE
        /\ UNCHANGED owning

\* lookups are checked against the set of inserted keys, not against the shape
TFind == /\ Ev.e = "find"
         /\ (Ev.found = 1) = (Ev.k \in inserted)
         /\ UNCHANGED <<inserted, tree, current, owning, ncalls>>

TNext == l <= Len(T) /\ (TNew \/ TIns \/ TFind) /\ l' = l + 1
TSpec == TInit /\ [][TNext]_tvars

TValid == current => (ValidShape(tree) /\ KeysExact(tree, inserted))
Accepted == TLCGet("stats").diameter - 1 = Len(T)
=============================================================================
