------------------------------- MODULE RBTree -------------------------------
(***************************************************************************)
(* The ordered-set utility of <ipr/utility> (property C08).                *)
(*                                                                         *)
(* R-level: a tree shape (root, key, left, right, parent, red, all indexed *)
(* by node number = order of creation) and the predicates a valid          *)
(* red-black search tree must satisfy.  These are what a verdict is taken  *)
(* against: any balancing scheme that keeps them is accepted.              *)
(*                                                                         *)
(* I-level: a transcription of what the code does (descend with the        *)
(* comparator convention `cmp(stored, key) < 0 => left`, CLRS insert       *)
(* fix-up with both rotations).  TLC checks that the I-level implies the   *)
(* R-level for every insertion sequence within the bounds, and the I-level *)
(* is what predicts shapes for the replayed behaviours.                    *)
(***************************************************************************)
EXTENDS Naturals, Sequences, FiniteSets, TLC

Nil == 0

EmptyTree == [root |-> Nil, left |-> <<>>, right |-> <<>>, parent |-> <<>>, red |-> <<>>, key |-> <<>>, count |-> 0]
NodeCount(T) == Len(T.key)
Nodes(T) == 1..NodeCount(T)

\* cmp(stored, key) < 0  <=>  stored < key: the code then descends LEFT (the tree is ordered in reverse)
GoLeft(d, k) == d < k

---------------------------------------------------------------------------
(* I-level                                                                 *)

RotateLeft(T, x) ==
  LET y == T.right[x]  b == T.left[y]  p == T.parent[x]
      T1 == [T EXCEPT !.right[x] = b]
      T2 == IF b # Nil THEN [T1 EXCEPT !.parent[b] = x] ELSE T1
      T3 == [T2 EXCEPT !.parent[y] = p]
      T4 == IF p = Nil THEN [T3 EXCEPT !.root = y]
            ELSE IF T3.left[p] = x THEN [T3 EXCEPT !.left[p] = y] ELSE [T3 EXCEPT !.right[p] = y]
  IN [T4 EXCEPT !.left[y] = x, !.parent[x] = y]

RotateRight(T, x) ==
  LET y == T.left[x]  b == T.right[y]  p == T.parent[x]
      T1 == [T EXCEPT !.left[x] = b]
      T2 == IF b # Nil THEN [T1 EXCEPT !.parent[b] = x] ELSE T1
      T3 == [T2 EXCEPT !.parent[y] = p]
      T4 == IF p = Nil THEN [T3 EXCEPT !.root = y]
            ELSE IF T3.right[p] = x THEN [T3 EXCEPT !.right[p] = y] ELSE [T3 EXCEPT !.left[p] = y]
  IN [T4 EXCEPT !.right[y] = x, !.parent[x] = y]

RECURSIVE Fixup(_, _)
Fixup(T, z) ==
  IF z = T.root \/ ~T.red[T.parent[z]] THEN [T EXCEPT !.red[T.root] = FALSE]
  ELSE LET p == T.parent[z]  g == T.parent[p] IN
    IF p = T.left[g] THEN
      LET y == T.right[g] IN
      IF y # Nil /\ T.red[y]
        THEN Fixup([T EXCEPT !.red[p] = FALSE, !.red[y] = FALSE, !.red[g] = TRUE], g)
        ELSE LET inner == T.right[p] = z
                 T1 == IF inner THEN RotateLeft(T, p) ELSE T
                 z1 == IF inner THEN p ELSE z
                 p1 == T1.parent[z1]  g1 == T1.parent[p1]
                 T2 == [T1 EXCEPT !.red[p1] = FALSE, !.red[g1] = TRUE]
             IN Fixup(RotateRight(T2, g1), z1)
    ELSE
      LET y == T.left[g] IN
      IF y # Nil /\ T.red[y]
        THEN Fixup([T EXCEPT !.red[p] = FALSE, !.red[y] = FALSE, !.red[g] = TRUE], g)
        ELSE LET inner == T.left[p] = z
                 T1 == IF inner THEN RotateRight(T, p) ELSE T
                 z1 == IF inner THEN p ELSE z
                 p1 == T1.parent[z1]  g1 == T1.parent[p1]
                 T2 == [T1 EXCEPT !.red[p1] = FALSE, !.red[g1] = TRUE]
             IN Fixup(RotateLeft(T2, g1), z1)

\* descend: <<found node or Nil, last node visited, went left?>>
RECURSIVE Descend(_, _, _, _, _)
Descend(T, k, cur, up, wl) ==
  IF cur = Nil THEN <<Nil, up, wl>>
  ELSE IF T.key[cur] = k THEN <<cur, up, wl>>
  ELSE IF GoLeft(T.key[cur], k) THEN Descend(T, k, T.left[cur], cur, TRUE)
  ELSE Descend(T, k, T.right[cur], cur, FALSE)

Find(T, k) == Descend(T, k, T.root, Nil, FALSE)[1]

AddNode(T, k, up, wl, isRed) ==
  LET z == NodeCount(T) + 1
      T1 == [T EXCEPT !.key = Append(@, k), !.left = Append(@, Nil), !.right = Append(@, Nil),
                      !.parent = Append(@, up), !.red = Append(@, isRed)]
  IN IF up = Nil THEN [T1 EXCEPT !.root = z]
     ELSE IF wl THEN [T1 EXCEPT !.left[up] = z] ELSE [T1 EXCEPT !.right[up] = z]

\* owning: an equal key adds nothing.  intrusive: the offered node is not linked, but the call is counted.
Insert(T, k, owning) ==
  LET d == Descend(T, k, T.root, Nil, FALSE) IN
  IF d[1] # Nil THEN (IF owning THEN T ELSE [T EXCEPT !.count = @ + 1])
  ELSE IF T.root = Nil THEN [AddNode(T, k, Nil, FALSE, FALSE) EXCEPT !.count = @ + 1]
  ELSE LET T1 == AddNode(T, k, d[2], d[3], TRUE) IN [Fixup(T1, NodeCount(T1)) EXCEPT !.count = @ + 1]

---------------------------------------------------------------------------
(* R-level predicates over a shape                                         *)

RECURSIVE BH(_, _)
BH(T, x) == IF x = Nil THEN 1
            ELSE LET l == BH(T, T.left[x])  r == BH(T, T.right[x]) IN
                 IF l = 0 \/ r = 0 \/ l # r THEN 0 ELSE l + (IF T.red[x] THEN 0 ELSE 1)
RECURSIVE Height(_, _)
Height(T, x) == IF x = Nil THEN 0
                ELSE 1 + (LET l == Height(T, T.left[x])  r == Height(T, T.right[x]) IN IF l > r THEN l ELSE r)
\* in-order key sequence (left subtree, node, right subtree); fuel guards against cyclic shapes in traces
RECURSIVE InOrder(_, _, _)
InOrder(T, x, fuel) == IF x = Nil \/ fuel = 0 THEN <<>>
                       ELSE InOrder(T, T.left[x], fuel - 1) \o <<x>> \o InOrder(T, T.right[x], fuel - 1)
RECURSIVE Pow2(_)
Pow2(n) == IF n = 0 THEN 1 ELSE 2 * Pow2(n - 1)

WellShaped(T) == /\ T.root \in Nodes(T) \cup {Nil}
                 /\ (T.root = Nil) = (NodeCount(T) = 0)
                 /\ \A x \in Nodes(T) : T.left[x] \in Nodes(T) \cup {Nil} /\ T.right[x] \in Nodes(T) \cup {Nil}
                                        /\ T.parent[x] \in Nodes(T) \cup {Nil}
RootBlack(T) == T.root # Nil => ~T.red[T.root] /\ T.parent[T.root] = Nil
NoRedRed(T) == \A x \in Nodes(T) : T.red[x] => \A c \in {T.left[x], T.right[x]} : c = Nil \/ ~T.red[c]
ParentLinks(T) == \A x \in Nodes(T) : \A c \in {T.left[x], T.right[x]} : c # Nil => T.parent[c] = x
\* every node reachable exactly once, and keys strictly ordered along the in-order walk (larger keys first)
Ordered(T) == LET io == InOrder(T, T.root, NodeCount(T) + 1) IN
              /\ Len(io) = NodeCount(T)
              /\ {io[i] : i \in 1..Len(io)} = Nodes(T)
              /\ \A i \in 1..(Len(io) - 1) : GoLeft(T.key[io[i + 1]], T.key[io[i]])
BlackBalanced(T) == BH(T, T.root) # 0
HeightBound(T) == Pow2(Height(T, T.root)) <= (NodeCount(T) + 1) * (NodeCount(T) + 1)     \* h <= 2 log2(n+1)

ValidShape(T) == WellShaped(T) /\ RootBlack(T) /\ NoRedRed(T) /\ ParentLinks(T) /\ Ordered(T)
                 /\ BlackBalanced(T) /\ HeightBound(T)
KeysExact(T, S) == {T.key[x] : x \in Nodes(T)} = S /\ Cardinality(S) = NodeCount(T)
=============================================================================
