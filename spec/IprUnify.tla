------------------------------ MODULE IprUnify ------------------------------
(***************************************************************************)
(* Unification (hash-consing) of types, names and atoms in one Lexicon.    *)
(*                                                                         *)
(* State: the sequence `node` of every entity ever returned (position =    *)
(* identity), and `table`, the union of all lookup tables, a function from *)
(* normalised request keys to identities.  Every public get_* call is one  *)
(* action `Step(req)`; the linearisation point is the return of the call.  *)
(*                                                                         *)
(* Properties decided here: C01 (types), C04 (names and atoms), C11        *)
(* (qualified normal form), C13 (routes from spellings to constants).      *)
(***************************************************************************)
EXTENDS Naturals, Sequences, FiniteSets, TLC, IprConst

VARIABLES node,      \* Seq(record): every entity, constants first
          table,     \* key record -> identity
          last       \* the last step: request + outcome (observable result of the call)

uvars == <<node, table, last>>

\* The constants are not part of the state (they never change): entity i is a constant for i <= NConst and
\* the (i - NConst)-th created entity otherwise.
N(i) == IF i <= NConst THEN ConstNodes[i] ELSE node[i - NConst]
NN == NConst + Len(node)

---------------------------------------------------------------------------
(* Records.  One uniform shape for every entity, which is also the shape   *)
(* the harness logs as observation:                                        *)
(*   c   category / kind        ops  operand identities, in accessor order *)
(*   q   qualifier bits (c=1, v=2, r=4)                                    *)
(*   w   spelling, or linkage spelling of the transfer of a type           *)
(*   w2  calling-convention spelling of the transfer of a type             *)
(*   ty  identity of type(), 0 where the interface has none                *)
(*   bad native sanity flaws seen by the observer; must be empty           *)

Rec(c, ops, q, w, w2, ty) == [c |-> c, ops |-> ops, q |-> q, w |-> w, w2 |-> w2, ty |-> ty, bad |-> ""]

TypeCats == {"Pointer", "Reference", "Rvalue_reference", "Array", "Qualified", "Function", "Product", "Sum",
             "Forall", "Ptr_to_member", "Tor", "As_type", "As_type_id", "Decltype", "Auto", "Class"}
ExprOnlyCats == {"Symbol", "Literal", "Phantom", "Expr_list"}
NameCats == {"Identifier", "Operator", "Suffix", "Conversion", "Ctor_name", "Dtor_name", "Guide_name",
             "Template_id"}

IsType(i) == N(i).c \in TypeCats
IsExpr(i) == N(i).c \in TypeCats \cup ExprOnlyCats
IsName(i) == N(i).c \in NameCats

\* A compound type record: type() is `typename`, transfer natural unless stated.
TypeRec(c, ops, q) == Rec(c, ops, q, "C++", "", TypenameId)
XTypeRec(c, ops, lw, cw) == Rec(c, ops, 0, lw, cw, TypenameId)

\* bitwise union on qualifier sets: bits 0..2 are const, volatile, restrict; bits 3 and 4 stand for two extended qualifiers
\* (the harness maps them to bits 40 and 63 of ipr::Qualifiers, whose representation is as wide as a pointer)
Bit(x, i) == (x \div (2 ^ i)) % 2
QOr(a, b) == LET m(i) == IF Bit(a, i) = 1 \/ Bit(b, i) = 1 THEN 2 ^ i ELSE 0 IN m(0) + m(1) + m(2) + m(3) + m(4)

IsNatural(lw, cw) == lw = "C++" /\ cw = ""

---------------------------------------------------------------------------
(* Requests.  [op, a, q, w]: operation name, operand identities, qualifier *)
(* bits, spelling.                                                         *)

Req(op, a, q, w) == [op |-> op, a |-> a, q |-> q, w |-> w]

\* Outcome of resolving a request against the current state:
\*   kind "refuse"   the call must throw std::logic_error
\*   kind "unify"    find-or-create under `key`, new entity has record `rec`
\*   kind "const"    a constant or otherwise already known identity `id`
\*   kind "fresh"    generative: always a new entity with record `rec`
\*   kind "bool"     a truth value `id` in {0,1}
Refuse == [kind |-> "refuse"]
Unify(key, rec) == [kind |-> "unify", key |-> key, rec |-> rec]
Same(rec) == Unify(rec, rec)
Known(id) == [kind |-> "const", id |-> id]
Fresh(rec) == [kind |-> "fresh", rec |-> rec]
Truth(b) == [kind |-> "bool", id |-> IF b THEN 1 ELSE 0]

IdentKey(w) == Rec("Identifier", <<>>, 0, w, "", 0)

\* Transfer value of a transfer entity / of a type
XferOf(i) == <<N(i).w, N(i).w2>>

TransferRec(lw, cw) == Rec("Transfer", <<>>, 0, lw, cw, 0)

FunctionRes(s, t, e, lw, cw) ==
   IF IsNatural(lw, cw) THEN Same(TypeRec("Function", <<s, t, e>>, 0))
   ELSE Same(XTypeRec("Function", <<s, t, e>>, lw, cw))

AsTypeRes(e, lw, cw) ==
   IF IsNatural(lw, cw) THEN Same(TypeRec("As_type", <<e>>, 0))
   ELSE Same(XTypeRec("As_type", <<e>>, lw, cw))

\* Builtin type denoted by an identifier, 0 if none.
BuiltinNamed(id) ==
   LET S == {k \in 1..NConst : ConstNodes[k].c = "As_type_id" /\ ConstNodes[k].ops = <<id>>}
   IN IF S = {} THEN 0 ELSE CHOOSE k \in S : TRUE

ResolveIn(nd, r) ==
   LET a == r.a
       M(i) == IF i <= NConst THEN ConstNodes[i] ELSE nd[i - NConst]
   IN
   CASE r.op = "get_pointer" -> Same(TypeRec("Pointer", <<a[1]>>, 0))
     [] r.op = "get_reference" -> Same(TypeRec("Reference", <<a[1]>>, 0))
     [] r.op = "get_rvalue_reference" -> Same(TypeRec("Rvalue_reference", <<a[1]>>, 0))
     [] r.op = "get_array" -> Same(TypeRec("Array", <<a[1], a[2]>>, 0))
     [] r.op = "get_qualified" ->
           IF r.q = 0 THEN Refuse
           ELSE IF M(a[1]).c = "Qualified"
                THEN Same(TypeRec("Qualified", M(a[1]).ops, QOr(r.q, M(a[1]).q)))
                ELSE Same(TypeRec("Qualified", <<a[1]>>, r.q))
     [] r.op = "get_function" -> FunctionRes(a[1], a[2], FalseId, "C++", "")
     [] r.op = "get_function_x" -> FunctionRes(a[1], a[2], FalseId, M(a[3]).w, M(a[3]).w2)
     [] r.op = "get_function_e" -> FunctionRes(a[1], a[2], a[3], "C++", "")
     [] r.op = "get_function_ex" -> FunctionRes(a[1], a[2], a[3], M(a[4]).w, M(a[4]).w2)
     [] r.op = "get_product" -> Same(TypeRec("Product", a, 0))
     [] r.op = "get_sum" -> Same(TypeRec("Sum", a, 0))
     \* the same request through a sequence object of the caller's own: sequences are compared element by element
     [] r.op = "get_product_ref" -> Same(TypeRec("Product", a, 0))
     [] r.op = "get_sum_ref" -> Same(TypeRec("Sum", a, 0))
     [] r.op = "get_product_of" -> Same(TypeRec("Product", M(a[1]).ops, 0))
     [] r.op = "get_sum_of" -> Same(TypeRec("Sum", M(a[1]).ops, 0))
     [] r.op = "get_forall" -> Same(TypeRec("Forall", <<a[1], a[2]>>, 0))
     [] r.op = "get_ptr_to_member" -> Same(TypeRec("Ptr_to_member", <<a[1], a[2]>>, 0))
     [] r.op = "get_tor" -> Same(TypeRec("Tor", <<a[1], a[2]>>, 0))
     [] r.op = "get_as_type" -> AsTypeRes(a[1], "C++", "")
     [] r.op = "get_as_type_x" -> AsTypeRes(a[1], M(a[2]).w, M(a[2]).w2)
     [] r.op = "get_as_type_id" ->
           IF BuiltinNamed(a[1]) # 0 THEN Known(BuiltinNamed(a[1]))
           ELSE Same(Rec("As_type_id", <<a[1]>>, 0, "C++", "", TypenameId))
     [] r.op = "get_decltype" ->
           IF a[1] = NullptrId THEN Known(NullptrTypeId)
           ELSE Fresh(TypeRec("Decltype", <<a[1]>>, 0))
     [] r.op = "get_auto" -> Fresh(TypeRec("Auto", <<>>, 0))
     \* -- transfers: as the library does it, three tables; (C++, c) and (l, natural) are normalised
     [] r.op = "get_transfer_from_linkage" ->
           Unify(Rec("XferL", <<>>, 0, M(a[1]).w, "", 0), TransferRec(M(a[1]).w, ""))
     [] r.op = "get_transfer_from_convention" ->
           Unify(Rec("XferC", <<>>, 0, "C++", M(a[1]).w, 0), TransferRec("C++", M(a[1]).w))
     [] r.op = "get_transfer" ->
           LET lw == M(a[1]).w  cw == M(a[2]).w IN
           IF lw = "C++" THEN Unify(Rec("XferC", <<>>, 0, "C++", cw, 0), TransferRec("C++", cw))
           ELSE IF cw = "" THEN Unify(Rec("XferL", <<>>, 0, lw, "", 0), TransferRec(lw, ""))
           ELSE Unify(Rec("Xfer", <<>>, 0, lw, cw, 0), TransferRec(lw, cw))
     \* -- names
     \* (the _s variants go through the overload taking an interned String instead of a word view: same request)
     [] r.op \in {"get_identifier", "get_identifier_s"} -> Same(IdentKey(r.w))
     [] r.op \in {"get_operator", "get_operator_s"} -> Same(Rec("Operator", <<>>, 0, r.w, "", 0))
     [] r.op = "get_suffix" -> Same(Rec("Suffix", <<a[1]>>, 0, "", "", 0))
     [] r.op = "get_conversion" -> Same(Rec("Conversion", <<a[1]>>, 0, "", "", 0))
     [] r.op = "get_ctor_name" -> Same(Rec("Ctor_name", <<a[1]>>, 0, "", "", 0))
     [] r.op = "get_dtor_name" -> Same(Rec("Dtor_name", <<a[1]>>, 0, "", "", 0))
     [] r.op = "get_guide_name" -> Same(Rec("Guide_name", <<a[1]>>, 0, "", "", 0))
     [] r.op = "get_template_id" -> Same(Rec("Template_id", <<a[1], a[2]>>, 0, "", "", 0))
     [] r.op = "get_logogram" -> Same(Rec("Logogram", <<>>, 0, r.w, "", 0))
     \* -- atoms
     [] r.op = "get_symbol" -> Same(Rec("Symbol", <<a[1], a[2]>>, 0, "", "", a[2]))
     [] r.op = "get_label" ->
           IF a[1] = DefaultNameId THEN Known(DefaultId)
           ELSE Same(Rec("Symbol", <<a[1], VoidId>>, 0, "", "", VoidId))
     [] r.op = "get_this" -> Same(Rec("Symbol", <<ThisNameId, a[1]>>, 0, "", "", a[1]))
     [] r.op \in {"get_literal", "make_literal", "get_literal_s", "make_literal_s"} -> Same(Rec("Literal", <<a[1]>>, 0, r.w, "", a[1]))
     [] r.op \in {"get_linkage", "get_linkage_s"} ->
           IF r.w = "C++" THEN Known(CxxLinkId)
           ELSE IF r.w = "C" THEN Known(CLinkId)
           ELSE Same(Rec("Linkage", <<>>, 0, r.w, "", 0))
     [] r.op = "get_calling_convention" -> Same(Rec("CallConv", <<>>, 0, r.w, "", 0))
     \* -- value equality: exactly when spelled the same
     [] r.op \in {"eq_linkage", "eq_callconv", "eq_logogram"} -> Truth(M(a[1]).w = M(a[2]).w)
     [] r.op = "eq_transfer" -> Truth(<<M(a[1]).w, M(a[1]).w2>> = <<M(a[2]).w, M(a[2]).w2>>)
     \* -- generative operands that this module does not look into
     [] r.op = "mk_class" -> Fresh(Rec("Class", <<>>, 0, "", "", 0))
     [] r.op = "mk_phantom" -> Fresh(Rec("Phantom", <<>>, 0, "", "", 0))
     [] r.op = "mk_expr_list" -> Fresh(Rec("Expr_list", <<>>, 0, "", "", 0))
     [] r.op = "mk_template" -> Fresh(Rec("Template", <<>>, 0, "", "", 0))
     \* anything else (a crash or sanitizer report recorded as a terminal event) is not a call the library answers
     [] OTHER -> Refuse

Resolve(r) == ResolveIn(node, r)

\* A request whose predicted entity reads exactly like a process-wide constant, in a category for which no property routes the
\* request to the constant (C13 names the routes: identifiers, named types, linkages, the `default` label, decltype(nullptr)):
\* the library may answer with a node of its own that looks like the constant, or with the constant itself.  Nothing the listed
\* properties say decides between the two, so the specification accepts both (the library at the pinned commit builds its own).
AltRouteCats == {"Identifier", "As_type_id", "Linkage"}
ConstLike(rec) == {k \in 1..NConst : ConstNodes[k] = rec}
AltOfIn(nd, tb, r) == LET res == ResolveIn(nd, r) IN
                      IF res.kind = "unify" /\ res.rec.c \notin AltRouteCats /\ ConstLike(res.rec) # {} /\ res.key \notin DOMAIN tb
                      THEN CHOOSE k \in ConstLike(res.rec) : TRUE ELSE 0

\* The identifiers carried by constants are the identifiers of their spellings (C04, C13): they are in the
\* identifier table from the start.
ConstIdents == {j \in 1..NConst : ConstNodes[j].c = "Identifier"}
InitTable ==
   [k \in {IdentKey(ConstNodes[i].w) : i \in ConstIdents} |->
       CHOOSE i \in ConstIdents : ConstNodes[i].w = k.w]
Outcome(r, out, id) == [op |-> r.op, a |-> r.a, q |-> r.q, w |-> r.w, out |-> out, r |-> id]

\* The effect of one call as a function of the state <<nd, tb>>: the new state and the observable outcome.
ApplyF(nd, tb, r) ==
   LET res == ResolveIn(nd, r)
       nn == NConst + Len(nd)
       hasKey(k) == k \in DOMAIN InitTable \/ k \in DOMAIN tb
       keyId(k) == IF k \in DOMAIN InitTable THEN InitTable[k] ELSE tb[k]
   IN
   CASE res.kind = "refuse" -> [node |-> nd, table |-> tb, last |-> Outcome(r, "refused", 0)]
     [] res.kind \in {"const", "bool"} -> [node |-> nd, table |-> tb, last |-> Outcome(r, "ok", res.id)]
     [] res.kind = "fresh" -> [node |-> Append(nd, res.rec), table |-> tb, last |-> Outcome(r, "ok", nn + 1)]
     [] res.kind = "unify" ->
           IF hasKey(res.key)
           THEN [node |-> nd, table |-> tb, last |-> Outcome(r, "ok", keyId(res.key))]
           ELSE [node |-> Append(nd, res.rec), table |-> (res.key :> (nn + 1)) @@ tb,
                 last |-> Outcome(r, "ok", nn + 1)]

Step(r) ==
   LET s == ApplyF(node, table, r) IN
   /\ node' = s.node
   /\ table' = s.table
   /\ last' = s.last

UInit == /\ node = <<>>
         /\ table = <<>>
         /\ last = Outcome(Req("init", <<>>, 0, ""), "ok", 0)

---------------------------------------------------------------------------
(* Invariants (checked by TLC on the model; evaluated in every state of    *)
(* every validated trace).                                                 *)

TableInjective == /\ \A k1, k2 \in DOMAIN table : table[k1] = table[k2] => k1 = k2
                  /\ \A k \in DOMAIN table : k \notin DOMAIN InitTable /\ table[k] > NConst

\* C01/C04 "and only then": two unified entities with the same record are the same entity.
UnifiedCats == (TypeCats \ {"Decltype", "Auto", "Class"}) \cup NameCats \cup {"Symbol", "Literal", "Logogram",
               "Linkage", "CallConv"}
\* Pairs of constants are distinct by ConstsOK.  A created entity may look like a constant only where no
\* property routes the request to the constant: the routes are identifier, named type and linkage (C13), so
\* e.g. get_symbol(delete, void) or get_calling_convention("") are allowed to be look-alikes.
CreatedIds == (NConst + 1)..NN
RouteCats == {"Identifier", "As_type_id", "Linkage"}
OnlyThen == \A i \in CreatedIds : \A j \in 1..NN :
               (N(i) = N(j) /\ N(i).c \in UnifiedCats /\ (j > NConst \/ N(i).c \in RouteCats)) => i = j

\* C04: one Identifier per spelling among everything reachable
OneIdentifierPerSpelling ==
   \A i \in CreatedIds : N(i).c = "Identifier" =>
      \A j \in 1..NN : (N(j).c = "Identifier" /\ N(i).w = N(j).w) => i = j

\* C11: no empty qualifier set, main variant never qualified
QualifiedNF == \A i \in CreatedIds :
                  N(i).c = "Qualified" => N(i).q # 0 /\ N(N(i).ops[1]).c # "Qualified"

\* operands always denote existing entities
WellFormed == \A i \in CreatedIds : \A k \in 1..Len(N(i).ops) : N(i).ops[k] \in 1..NN

\* C13 on the constants themselves
ConstsOK == /\ \A i, j \in 1..NConst : i # j => ConstNodes[i] # ConstNodes[j]
            /\ \A i \in 1..NConst : \A k \in 1..Len(ConstNodes[i].ops) : ConstNodes[i].ops[k] \in 1..NConst
            /\ \A i \in 1..NConst : ConstNodes[i].c # "Qualified"
ASSUME ConstsOK

UInvariant == TableInjective /\ OnlyThen /\ OneIdentifierPerSpelling /\ QualifiedNF /\ WellFormed

\* C05 (as far as this module sees it): entities never change and the table only grows.
Stable == [][/\ Len(node') >= Len(node)
             /\ SubSeq(node', 1, Len(node)) = node
             /\ \A k \in DOMAIN table : k \in DOMAIN table' /\ table'[k] = table[k]]_uvars
=============================================================================
