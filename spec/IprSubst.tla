------------------------------ MODULE IprSubst ------------------------------
(***************************************************************************)
(* Substitutions are finite maps from parameters to expressions (C16).     *)
(* Parameters are 1..NParam, other expressions NParam+1..NParam+NValue     *)
(* (a parameter is itself an expression and may be bound to).              *)
(***************************************************************************)
EXTENDS Naturals, Sequences, FiniteSets, TLC

CONSTANTS NParam, NValue
Params == 1..NParam
Exprs == 1..(NParam + NValue)

VARIABLES subst,    \* Seq of [kind, map]: every substitution ever made; map is a function with domain \subseteq Params
          slast     \* observable result of the last call
sbvars == <<subst, slast>>

SbInit == subst = <<>> /\ slast = [op |-> "init", s |-> 0, p |-> 0, v |-> 0, r |-> 0]

MakeElementary(p, v) ==
   /\ subst' = Append(subst, [kind |-> "elementary", map |-> (p :> v)])
   /\ slast' = [op |-> "make_elementary", s |-> Len(subst) + 1, p |-> p, v |-> v, r |-> Len(subst) + 1]
MakeGeneral ==
   /\ subst' = Append(subst, [kind |-> "general", map |-> <<>>])
   /\ slast' = [op |-> "make_general", s |-> Len(subst) + 1, p |-> 0, v |-> 0, r |-> Len(subst) + 1]
\* the latest binding given for a parameter wins
Bind(s, p, v) ==
   /\ subst[s].kind = "general"
   /\ subst' = [subst EXCEPT ![s].map = (p :> v) @@ subst[s].map]
   /\ slast' = [op |-> "bind", s |-> s, p |-> p, v |-> v, r |-> s]
\* in the domain: the bound expression; outside: the parameter itself, unchanged
ApplyTo(s, p) == IF p \in DOMAIN subst[s].map THEN subst[s].map[p] ELSE p
Apply(s, p) ==
   /\ slast' = [op |-> "apply", s |-> s, p |-> p, v |-> 0, r |-> ApplyTo(s, p)]
   /\ UNCHANGED subst

SbTypeOK == \A i \in 1..Len(subst) : DOMAIN subst[i].map \subseteq Params /\ \A p \in DOMAIN subst[i].map : subst[i].map[p] \in Exprs
ElementaryHasOneBinding == \A i \in 1..Len(subst) : subst[i].kind = "elementary" => Cardinality(DOMAIN subst[i].map) = 1
\* an elementary substitution never changes; a general one changes only by Bind on itself
Frame == [][\A i \in 1..Len(subst) : subst'[i] = subst[i] \/ (slast'.op = "bind" /\ slast'.s = i)]_sbvars
=============================================================================
