---------------------------- MODULE IprStringsMC ----------------------------
EXTENDS IprStrings, IprKnownWords, Json
CONSTANTS Words, Depth, Record
VARIABLES hist, steps
vars == <<pool, shared, content, stlast, hist, steps>>
Init == StInit /\ hist = <<>> /\ steps = 0
Next == /\ steps < Depth
        /\ \E x \in Lexes, w \in Words : Intern(x, w)
        /\ steps' = steps + 1
        /\ hist' = (IF Record THEN Append(hist, stlast') ELSE hist)
Spec == Init /\ [][Next]_vars
Emit == (Record /\ steps = Depth) => PrintT(<<"BEH", ToJson(hist)>>)
ContentStableMC == [][Len(content') >= Len(content) /\ SubSeq(content', 1, Len(content)) = content]_vars
=============================================================================
