------------------------------- MODULE IprUnits -------------------------------
(***************************************************************************)
(* Translation units and modules (growth of the specification beyond the   *)
(* listed properties, DESIGN section 5 item 3).                            *)
(*                                                                         *)
(* A Lexicon hosts plain translation units and modules.  A module owns one *)
(* interface unit (made with the module) and any number of implementation  *)
(* units (Module::make_unit).  Every unit has a sequence of imported       *)
(* modules; module units have a purview (owned declarations); interface    *)
(* units have exported modules and exported declarations; a module has a   *)
(* name made of identifier stems.  All sequences grow at the end only and  *)
(* keep duplicates (they are reference sequences, not sets).               *)
(*                                                                         *)
(* Units are visited by Translation_unit::Visitor: accept() enters the     *)
(* hook of the unit's own kind once; the default hooks of module and       *)
(* interface units forward to the translation-unit hook.                   *)
(*                                                                         *)
(* Identities: modules and units are numbered separately in creation       *)
(* order (the interface unit of a module is created with it).  Identifiers *)
(* and declarations come from harness-made pools 1..NIdent, 1..NDecl.      *)
(***************************************************************************)
EXTENDS Naturals, Sequences, FiniteSets, TLC

CONSTANTS NDecl, NIdent
VARIABLES mods, units, ulast
uvars == <<mods, units, ulast>>

NewUnitRec(kind, parent) ==
   [kind |-> kind, parent |-> parent, imports |-> <<>>, purview |-> <<>>, xmods |-> <<>>, xdecls |-> <<>>]

UInit == mods = <<>> /\ units = <<>> /\ ulast = [op |-> "init", a |-> <<>>]

IsUnit(u) == u \in 1..Len(units)
IsMod(m) == m \in 1..Len(mods)
IsModuleUnit(u) == IsUnit(u) /\ units[u].kind # "tu"
IsInterface(u) == IsUnit(u) /\ units[u].kind = "iu"

\* the state after a call, as functions (so that model checkers and trace validators share them)
AfterU(op, a) ==
   CASE op = "new_unit" -> Append(units, NewUnitRec("tu", 0))
     [] op = "new_module" -> Append(units, NewUnitRec("iu", Len(mods) + 1))
     [] op = "make_unit" -> Append(units, NewUnitRec("mu", a[1]))
     [] op = "import" -> [units EXCEPT ![a[1]].imports = Append(@, a[2])]
     [] op = "own" -> [units EXCEPT ![a[1]].purview = Append(@, a[2])]
     [] op = "export_module" -> [units EXCEPT ![a[1]].xmods = Append(@, a[2])]
     [] op = "export_decl" -> [units EXCEPT ![a[1]].xdecls = Append(@, a[2])]
     [] OTHER -> units
AfterM(op, a) ==
   CASE op = "new_module" -> Append(mods, [stems |-> <<>>, iface |-> Len(units) + 1, impls |-> <<>>])
     [] op = "make_unit" -> [mods EXCEPT ![a[1]].impls = Append(@, Len(units) + 1)]
     [] op = "stem" -> [mods EXCEPT ![a[1]].stems = Append(@, a[2])]
     [] OTHER -> mods

Admissible(op, a) ==
   CASE op \in {"new_unit", "new_module"} -> a = <<>>
     [] op = "make_unit" -> Len(a) = 1 /\ IsMod(a[1])
     [] op = "import" -> Len(a) = 2 /\ IsUnit(a[1]) /\ IsMod(a[2])
     [] op = "own" -> Len(a) = 2 /\ IsModuleUnit(a[1]) /\ a[2] \in 1..NDecl
     [] op = "export_module" -> Len(a) = 2 /\ IsInterface(a[1]) /\ IsMod(a[2])
     [] op = "export_decl" -> Len(a) = 2 /\ IsInterface(a[1]) /\ a[2] \in 1..NDecl
     [] op = "stem" -> Len(a) = 2 /\ IsMod(a[1]) /\ a[2] \in 1..NIdent
     [] OTHER -> FALSE

Call(op, a) == /\ Admissible(op, a)
               /\ units' = AfterU(op, a)
               /\ mods' = AfterM(op, a)
               /\ ulast' = [op |-> op, a |-> a]

\* --- what the interface must answer ----------------------------------------------------------------------
Hooks(kind) == CASE kind = "tu" -> <<"Translation_unit">>
                 [] kind = "mu" -> <<"Module_unit", "Translation_unit">>
                 [] kind = "iu" -> <<"Interface_unit", "Translation_unit">>
\* the number of the unit's own kind among all units is not observable; what is: its parent, its sequences, the hooks
\* an all-defaults visitor runs through, and that its global namespace is its own (ns = the unit's number), unnamed,
\* typed `namespace`, with a global region owned by that namespace
ObsUnit(us, u) == [kind |-> us[u].kind, hooks |-> Hooks(us[u].kind), parent |-> us[u].parent, imports |-> us[u].imports,
                   purview |-> us[u].purview, xmods |-> us[u].xmods, xdecls |-> us[u].xdecls, ns |-> u]
ObsMod(ms, m) == [stems |-> ms[m].stems, iface |-> ms[m].iface, impls |-> ms[m].impls]
Obs(ms, us) == [units |-> [u \in 1..Len(us) |-> ObsUnit(us, u)], mods |-> [m \in 1..Len(ms) |-> ObsMod(ms, m)]]

\* --- invariants of the design ----------------------------------------------------------------------------
UnitsInvariant ==
   /\ \A m \in 1..Len(mods) :
         /\ IsInterface(mods[m].iface) /\ units[mods[m].iface].parent = m
         /\ \A i \in 1..Len(mods[m].impls) : units[mods[m].impls[i]].kind = "mu" /\ units[mods[m].impls[i]].parent = m
         /\ \A i, j \in 1..Len(mods[m].impls) : mods[m].impls[i] = mods[m].impls[j] => i = j
   /\ \A u \in 1..Len(units) :
         /\ (units[u].kind = "tu") = (units[u].parent = 0)
         /\ units[u].kind = "tu" => units[u].purview = <<>>
         /\ units[u].kind # "iu" => units[u].xmods = <<>> /\ units[u].xdecls = <<>>
         /\ units[u].kind = "mu" => \E i \in 1..Len(mods[units[u].parent].impls) : mods[units[u].parent].impls[i] = u
         /\ units[u].kind = "iu" => mods[units[u].parent].iface = u
\* every change is an append to exactly the sequence the call names; nothing else moves
Prefix(s, t) == Len(s) <= Len(t) /\ SubSeq(t, 1, Len(s)) = s
OnlyGrows == [][/\ Len(units') >= Len(units) /\ Len(mods') >= Len(mods)
                /\ \A u \in 1..Len(units) : /\ units'[u].kind = units[u].kind /\ units'[u].parent = units[u].parent
                                            /\ Prefix(units[u].imports, units'[u].imports) /\ Prefix(units[u].purview, units'[u].purview)
                                            /\ Prefix(units[u].xmods, units'[u].xmods) /\ Prefix(units[u].xdecls, units'[u].xdecls)
                /\ \A m \in 1..Len(mods) : /\ mods'[m].iface = mods[m].iface
                                           /\ Prefix(mods[m].stems, mods'[m].stems) /\ Prefix(mods[m].impls, mods'[m].impls)]_uvars
=============================================================================
