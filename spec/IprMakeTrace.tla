----------------------------- MODULE IprMakeTrace -----------------------------
(* Binding B for IprMake: random histories over all factories, where later nodes take earlier ones as operands;  *)
(*   {"op":"make","f":factory,"a":[args],"r":id,"o":observation}   {"op":"set","n":id,"l":link,"v":value,"o":..}   *)
(*   {"op":"observe","n":id,"o":..}   an earlier node re-read later (it may have changed only by `set` on itself)  *)
EXTENDS IprMake, Json, IOUtils
VARIABLES l, prev       \* prev: `made` as it was when stability was last reported
tvars == <<made, mklast, l, prev>>
T == ndJsonDeserialize(IOEnv.TRACE)
Ev == T[l]
TInit == MkInit /\ l = 1 /\ prev = <<>>
\* (compared accessor by accessor: an empty JSON object and an empty TLA+ function are not comparable values in TLC)
Same(o, id, md) == LET e == Expected(md, id) IN
                   /\ o.cat = e.cat /\ o.type = e.type
                   /\ DOMAIN o.acc = DOMAIN e.acc
                   /\ \A x \in DOMAIN e.acc : o.acc[x] = e.acc[x]
TMake == Ev.op = "make" /\ Make(Ev.f, Ev.a) /\ mklast'.r = Ev.r /\ Same(Ev.o, Ev.r, made') /\ UNCHANGED prev
TSet == Ev.op = "set" /\ SetLink(Ev.n, Ev.l, Ev.v) /\ Same(Ev.o, Ev.n, made') /\ UNCHANGED prev
TObserve == Ev.op = "observe" /\ IsMade(Ev.n) /\ Same(Ev.o, Ev.n, made) /\ UNCHANGED <<made, mklast, prev>>
\* C05: the nodes that read differently than at the previous report are exactly those whose expected observation
\* changed, i.e. those the client changed explicitly (or that borrow from one it changed); nothing else ever changes
ChangedSince(old, new) == {IdOf(k) : k \in {j \in 1..Len(old) : Expected(old, IdOf(j)) # Expected(new, IdOf(j))}}
TStable == /\ Ev.op = "stable"
           /\ {Ev.a[i] : i \in 1..Len(Ev.a)} = ChangedSince(prev, made)
           /\ prev' = made
           /\ UNCHANGED <<made, mklast>>
TReset == Ev.op = "reset" /\ made' = <<>> /\ prev' = <<>>
          /\ mklast' = [op |-> "init", f |-> "", a |-> <<>>, n |-> 0, l |-> "", v |-> 0, r |-> 0]
TNext == l <= Len(T) /\ (TMake \/ TSet \/ TObserve \/ TStable \/ TReset) /\ l' = l + 1
TSpec == TInit /\ [][TNext]_tvars
Accepted == TLCGet("stats").diameter - 1 = Len(T)
=============================================================================
