------------------------------- MODULE IprIterMC -------------------------------
EXTENDS IprIter, Json
CONSTANTS Depth
VARIABLE hist
vars == <<idx, itlast, hist>>
Init == ItInit /\ hist = <<>>
Next == /\ Len(hist) < Depth
        /\ \E op \in ItOps : Do(op) /\ hist' = Append(hist, itlast')
Spec == Init /\ [][Next]_vars
Emit == (Len(hist) = Depth) => PrintT(<<"BEH", ToJson(hist)>>)
=============================================================================
