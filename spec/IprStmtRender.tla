---------------------------- MODULE IprStmtRender ----------------------------
(***************************************************************************)
(* Reference renderer for statements (src/io.cxx, xpr::Stmt and the        *)
(* declaration production for variables): growth of the specification      *)
(* beyond the listed properties, DESIGN section 5 item 6.                  *)
(*                                                                         *)
(* On top of the padding of IprRender the printer keeps a pending          *)
(* indentation and a "needs a newline" flag:                               *)
(*   newline          writes "\n" and then `indentation` blanks, clears    *)
(*                    the flag;                                            *)
(*   xpr_stmt         first writes a newline if the flag is set.           *)
(* Every production is a sequence of these steps; the program text is what *)
(* they leave on the stream.                                               *)
(*                                                                         *)
(* Programs are the statement trees of IprPrinterMC over the leaves        *)
(* "expr" (1\02;), "break", "return" (return 0;) and "decl" (a variable       *)
(* v<n> whose type depends on n mod 4, as harness/printer.cxx builds it).  *)
(* Names are numbered in construction order, which differs from printing   *)
(* order for labels, for-in variables and handler parameters.              *)
(***************************************************************************)
EXTENDS Naturals, Integers, Sequences, TLC

Start == [t |-> "", p |-> "None", nl |-> FALSE, ind |-> 0]
Tok(st, x) == [st EXCEPT !.t = @ \o x, !.p = "None"]
Idn(st, x) == [st EXCEPT !.t = @ \o (IF st.p = "Before" THEN " " ELSE "") \o x, !.p = "Before"]
Raw(st, x) == [st EXCEPT !.t = @ \o x]
NeedNl(st) == [st EXCEPT !.nl = TRUE]
Indent(st, n) == [st EXCEPT !.ind = @ + n]
RECURSIVE Blanks(_)
Blanks(n) == IF n <= 0 THEN "" ELSE " " \o Blanks(n - 1)
Newline(st) == LET a == Tok(st, "\n") IN [a EXCEPT !.t = @ \o Blanks(a.ind), !.nl = FALSE]
NlIndent(st, n) == Newline(Indent(st, n))

Name(n) == "v" \o ToString(n)
Cond(st) == Raw(st, "c")                                    \* the literal c used as every condition

\* xpr_type of the type the harness gives variable number n
VarType(st, n) ==
   CASE n % 4 = 1 ->     \* (int, *char) throw(*char, *int) void : a function type with an exception sum
           Idn(Tok(Idn(Tok(Raw(Idn(Tok(Tok(Idn(Tok(Tok(Idn(Tok(Raw(Idn(Tok(st, "("), "int"), ", "), "*"), "char"), ")"), " "),
                                               "throw"), "("), "*"), "char"), ", "), "*"), "int"), ")"), "void")
     [] n % 4 = 2 ->     \* [4] const volatile int
           Idn(Idn(Idn(Tok(Raw(Tok(st, "["), "4"), "]"), "const"), "volatile"), "int")
     [] n % 4 = 3 ->     \* & () noexcept(false) int
           Idn(Tok(Idn(Tok(Idn(Tok(Tok(Tok(Tok(st, "&"), "("), ")"), " "), "noexcept"), "("), "false"), ")"), "int")
     [] OTHER -> Idn(st, "int")
\* xpr_decl of variable n (no specifiers, no initializer)
VarDecl(st, n) == VarType(Tok(Idn(st, Name(n)), " : "), n)
\* a parameter or for-in variable: always int
IntDecl(st, n) == Idn(Tok(Idn(st, Name(n)), " : "), "int")

RECURSIVE Cnt(_), CntSeq(_, _), CntHandlers(_, _)
\* names consumed while building a tree
Cnt(t) == CASE t[1] \in {"expr", "break", "return"} -> 0
            [] t[1] \in {"decl", "arr"} -> 1
            [] t[1] = "fun" -> 2
            [] t[1] \in {"class", "enum"} -> 3
            [] t[1] = "block" -> CntSeq(t[2], 1)
            [] t[1] = "try" -> CntSeq(t[2], 1) + CntHandlers(t[3], 1)
            [] t[1] = "ifelse" -> Cnt(t[2]) + Cnt(t[3])
            [] t[1] \in {"forin", "labeled"} -> Cnt(t[2]) + 1
            [] OTHER -> Cnt(t[2])
CntSeq(ts, i) == IF i > Len(ts) THEN 0 ELSE Cnt(ts[i]) + CntSeq(ts, i + 1)
CntHandlers(hs, i) == IF i > Len(hs) THEN 0 ELSE 1 + Cnt(hs[i]) + CntHandlers(hs, i + 1)

RECURSIVE Stmt(_, _, _), Visit(_, _, _), Body(_, _, _, _), Handlers(_, _, _, _)

\* xpr_stmt of tree t, built when the name counter stood at c
Stmt(st, t, c) == Visit(IF st.nl THEN NlIndent(st, 0) ELSE st, t, c)

\* the statements of a block, each followed by needs_newline
Body(st, ts, i, c) == IF i > Len(ts) THEN st ELSE Body(NeedNl(Stmt(st, ts[i], c)), ts, i + 1, c + Cnt(ts[i]))

\* the opening brace, the body and the closing brace of a block
Braces(st, ts, c) == NeedNl(Tok(NlIndent(Body(Indent(NeedNl(Tok(st, "{")), 3), ts, 1, c), -3), "}"))

\* handlers: parameter number c + 1, then the one statement of the handler's block built with the counter at c + 1
Handlers(st, hs, i, c) ==
   IF i > Len(hs) THEN st
   ELSE LET a == IF st.nl THEN NlIndent(st, 0) ELSE st
            b == Tok(IntDecl(Tok(Tok(Idn(a, "catch"), " "), "("), c + 1), ")")
            d == NlIndent(Stmt(NlIndent(b, 3), <<"block", <<hs[i]>> >>, c + 1), -3)
        IN Handlers(d, hs, i + 1, c + 1 + Cnt(hs[i]))

Opening(st, kw) == Tok(Cond(Tok(Tok(Idn(st, kw), " "), "(")), ")")

Visit(st, t, c) ==
   CASE t[1] = "expr" -> NeedNl(Tok(Raw(st, "1\\02"), ";"))           \* the literal 1<U+0002>, its second code unit escaped
     [] t[1] = "break" -> NeedNl(Tok(Idn(st, "break"), ";"))
     [] t[1] = "return" -> NeedNl(Tok(Raw(Tok(Idn(st, "return"), " "), "0"), ";"))
     [] t[1] = "decl" -> Tok(VarDecl(st, c + 1), ";")                       \* a declaration statement does not ask for a newline
     \* v : [3] const *int (x\ty): an initialised variable; the tab of the literal is written as an escape
     [] t[1] = "arr" ->
           Tok(Tok(Raw(Tok(Idn(Tok(Idn(Tok(Raw(Tok(Tok(Idn(st, Name(c + 1)), " : "), "["), "3"), "]"), "const"), "*"), "int"), "("), "x\\ty"), ")"), ";")
     \* an inline function definition: declaration line, then its mapping (parameters, exception specification, body) as a statement
     [] t[1] = "fun" ->
           LET parm(x) == IntDecl(x, c + 1)
               a == Idn(Tok(parm(Tok(Raw(Idn(Tok(Idn(st, Name(c + 2)), " : "), "inline"), " "), "(")), ")"), "int")
               b == NlIndent(NeedNl(a), 0)
               d == Tok(Idn(Tok(Idn(Tok(Tok(parm(Tok(b, "(")), ")"), " "), "noexcept"), "("), "false"), ")")
           IN Tok(Braces(d, << <<"return">> >>, c + 2), ";")
     \* a class definition as a declaration statement: base list, then the members one per line (each followed by a line
     \* break and the indentation, also the last one), the closing brace on a line of its own
     [] t[1] = "class" ->
           LET a == Tok(Idn(Tok(Idn(Tok(Idn(st, Name(c + 3)), " : "), "class"), "("), "int"), ")")
               b == NlIndent(Tok(Tok(a, " "), "{"), 3)
               f == Newline(Tok(Idn(Tok(Idn(Idn(Tok(Idn(b, Name(c + 1)), " : "), "public"), "mutable"), "*"), "char"), ";"))
               g == Newline(Tok(Idn(Tok(Raw(Tok(Idn(Tok(Idn(f, Name(c + 2)), " : #"), "bitfield"), "("), "3"), ")"), "int"), ";"))
           IN Tok(NeedNl(Tok(NlIndent(g, -3), "}")), ";")
     \* a scoped enumeration with two enumerators, the second initialised
     [] t[1] = "enum" ->
           LET a == NlIndent(Tok(Tok(Idn(Tok(Idn(st, Name(c + 3)), " : "), "enum"), " "), "{"), 3)
               f == Newline(Tok(Idn(a, Name(c + 1)), ";"))
               g == Newline(Tok(Tok(Raw(Tok(Idn(f, Name(c + 2)), "("), "7"), ")"), ";"))
           IN Tok(NeedNl(Tok(NlIndent(g, -3), "}")), ";")
     [] t[1] = "block" -> Braces(st, t[2], c)
     [] t[1] = "try" -> Handlers(Braces(st, t[2], c), t[3], 1, c + CntSeq(t[2], 1))
     [] t[1] = "if" -> NeedNl(Indent(Stmt(NlIndent(Opening(st, "if"), 3), t[2], c), -3))
     [] t[1] = "ifelse" ->
           NeedNl(Indent(Stmt(NlIndent(Idn(NlIndent(Stmt(NlIndent(Opening(st, "if"), 3), t[2], c), -3), "else"), 3), t[3], c + Cnt(t[2])), -3))
     [] t[1] = "while" -> Indent(NeedNl(Stmt(NlIndent(Opening(st, "while"), 3), t[2], c)), -3)
     [] t[1] = "do" -> NeedNl(Tok(Tok(Cond(Tok(Tok(Idn(NlIndent(Stmt(NlIndent(Idn(st, "do"), 3), t[2], c), -3), "while"), " "), "(")), ")"), ";"))
     [] t[1] = "switch" -> NlIndent(Stmt(NlIndent(Opening(st, "switch"), 3), t[2], c), -3)
     [] t[1] = "for" ->
           NeedNl(Indent(Stmt(NlIndent(Tok(Tok(Cond(Tok(Tok(Idn(st, "for"), " ("), "; ")), "; "), ")"), 3), t[2], c), -3))
     [] t[1] = "forin" ->
           NeedNl(Indent(Stmt(NlIndent(Tok(Cond(Tok(IntDecl(Tok(Idn(st, "for"), " ("), c + Cnt(t[2]) + 1), " <- ")), ")"), 3), t[2], c), -3))
     [] t[1] = "labeled" ->
           \* (xpr_stmt has already taken the pending newline, so only the indentation is pulled back)
           NeedNl(Stmt(NeedNl(Indent(Tok(Idn(Tok(Idn(Indent(st, -3), "label"), " "), Name(c + Cnt(t[2]) + 1)), ":"), 3)), t[2], c))

Render(t) == Stmt(Start, t, 0).t
=============================================================================
