----------------------------- MODULE IprSubstMC -----------------------------
EXTENDS IprSubst, Json
CONSTANTS Depth, MaxSubst, Record
VARIABLES hist, steps
vars == <<subst, slast, hist, steps>>
Init == SbInit /\ hist = <<>> /\ steps = 0
Act == \/ \E p \in Params, v \in Exprs : Len(subst) < MaxSubst /\ MakeElementary(p, v)
       \/ Len(subst) < MaxSubst /\ MakeGeneral
       \/ \E s \in 1..Len(subst), p \in Params, v \in Exprs : Bind(s, p, v)
       \/ \E s \in 1..Len(subst), p \in Params : Apply(s, p)
Next == steps < Depth /\ Act /\ steps' = steps + 1 /\ hist' = (IF Record THEN Append(hist, slast') ELSE hist)
Spec == Init /\ [][Next]_vars
Inv == SbTypeOK /\ ElementaryHasOneBinding
Emit == (Record /\ steps = Depth) => PrintT(<<"BEH", ToJson(hist)>>)
FrameMC == [][\A i \in 1..Len(subst) : subst'[i] = subst[i] \/ (slast'.op = "bind" /\ slast'.s = i)]_vars
=============================================================================
