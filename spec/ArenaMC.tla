------------------------------- MODULE ArenaMC -------------------------------
EXTENDS Arena, Json
CONSTANTS Depth, Lengths, Directed, Record
VARIABLES hist
vars == <<caps, cur, nxt, placed, hist>>

\* lengths around "exactly fills what is left", plus a few fixed ones (used with the real constants)
Boundary == LET R == Remaining IN
   {n \in {Hdr * (r - 1) + Pad + e : r \in {x \in {R - 1, R, R + 1} : x >= 1}, e \in {0, 1, 2}} : n >= 1}
Interesting == {8, 200, Buf + 1} \cup {n - 1 : n \in Boundary} \cup (IF Remaining > 40 THEN {Hdr * (Remaining - 3) + Pad} ELSE {})

Init == AInit /\ hist = <<>>
Next == /\ Len(placed) < Depth
        /\ \E n \in (IF Directed THEN Interesting ELSE Lengths) :
              Allocate(n) /\ hist' = (IF Record THEN Append(hist, n) ELSE <<>>)
Spec == Init /\ [][Next]_vars
Emit == (Record /\ Len(placed) = Depth) => PrintT(<<"BEH", ToJson(hist)>>)
=============================================================================
