--------------------------- MODULE IprStringsTrace ---------------------------
(* Binding B for C03.  Lines:                                                                               *)
(*   {"e":"intern","lx":k,"w":word,"r":id,"chars":word read back through characters(),"size":n}            *)
(*   {"e":"observe","id":k,"chars":word}    an earlier String re-read later                                 *)
(*   {"e":"reset"}                          all lexicons destroyed, identities restart                      *)
EXTENDS IprStrings, IprKnownWords, Json, IOUtils
VARIABLE l
tvars == <<pool, shared, content, stlast, l>>
T == ndJsonDeserialize(IOEnv.TRACE)
Ev == T[l]
TInit == StInit /\ l = 1

\* a word outside Known that some other lexicon already holds may be shared with it (the reserved list is a lower bound)
OtherHolder(lx, w) == {pool[y][w] : y \in {z \in Lexes : z # lx /\ w \in DOMAIN pool[z]}}

TIntern == /\ Ev.e = "intern"
           /\ Ev.chars = Ev.w                                    \* content preserved
           /\ IF Ev.w # "" /\ Ev.w \notin Known /\ Ev.w \notin DOMAIN pool[Ev.lx] /\ Ev.r \in OtherHolder(Ev.lx, Ev.w)
              THEN /\ pool' = [pool EXCEPT ![Ev.lx] = (Ev.w :> Ev.r) @@ @]
                   /\ stlast' = [lx |-> Ev.lx, w |-> Ev.w, r |-> Ev.r]
                   /\ UNCHANGED <<shared, content>>
              ELSE Intern(Ev.lx, Ev.w) /\ stlast'.r = Ev.r
TObserve == /\ Ev.e = "observe"
            /\ Ev.id \in 1..Len(content)
            /\ content[Ev.id] = Ev.chars                          \* never altered, never invalidated
            /\ UNCHANGED stvars
TReset == Ev.e = "reset" /\ pool' = [x \in Lexes |-> <<>>] /\ shared' = <<>> /\ content' = <<"">>
          /\ stlast' = [lx |-> 0, w |-> "", r |-> 0]
TNext == l <= Len(T) /\ (TIntern \/ TObserve \/ TReset) /\ l' = l + 1
TSpec == TInit /\ [][TNext]_tvars
Accepted == TLCGet("stats").diameter - 1 = Len(T)
=============================================================================
