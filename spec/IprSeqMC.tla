------------------------------- MODULE IprSeqMC -------------------------------
EXTENDS IprSeq, Json
CONSTANTS MaxLen
VARIABLE hist
vars == <<s, sqlast, hist>>
Init == SqInit /\ hist = <<[ev |-> [op |-> "init", r |-> 0], o |-> Obs(<<>>)]>>
Next == Len(s) < MaxLen /\ Push /\ hist' = Append(hist, [ev |-> sqlast', o |-> Obs(s')])
Spec == Init /\ [][Next]_vars
Emit == PrintT(<<"BEH", ToJson(hist)>>)
Sane == \A i \in 0..(Len(s) + Extra) : (At(s, i) = Refused) <=> (i >= Len(s))
=============================================================================
