----------------------------- MODULE IprLedgerMC -----------------------------
(* Design check of the ledger on a small universe, with an owner that either releases what it owns when it is destroyed *)
(* (Leaky = FALSE) or forgets one of its tables (Leaky = TRUE).  With Leaky = TRUE the invariant CanEnd is violated,   *)
(* which shows that the End postcondition can tell the two apart.                                                       *)
EXTENDS IprLedger
CONSTANTS Ids, Leaky
VARIABLES owned, forgotten, phase
vars == <<live, ever, base, open, owned, forgotten, phase>>
Init == LgInit /\ owned = {} /\ forgotten = {} /\ phase = "idle"
Create == phase = "idle" /\ Begin /\ phase' = "alive" /\ UNCHANGED <<owned, forgotten>>
Grow == /\ phase = "alive"
        /\ \E a \in Ids \ ever : Alloc(a) /\ (\/ owned' = owned \cup {a} /\ UNCHANGED forgotten
                                              \/ Leaky /\ forgotten' = forgotten \cup {a} /\ UNCHANGED owned)
        /\ UNCHANGED phase
Shrink == phase = "alive" /\ \E a \in owned : Free(a) /\ owned' = owned \ {a} /\ UNCHANGED <<forgotten, phase>>
\* destruction releases what the owner knows about, one allocation per step
Destroying == phase \in {"alive", "dying"} /\ owned # {} /\ \E a \in owned : Free(a) /\ owned' = owned \ {a} /\ phase' = "dying" /\ UNCHANGED forgotten
Destroyed == phase \in {"alive", "dying"} /\ owned = {} /\ phase' = "dead" /\ UNCHANGED <<live, ever, base, open, owned, forgotten>>
Next == Create \/ Grow \/ Shrink \/ Destroying \/ Destroyed
Spec == Init /\ [][Next]_vars
\* once the owner is gone, End must be possible
CanEnd == phase = "dead" => live = base
=============================================================================
