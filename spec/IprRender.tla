------------------------------ MODULE IprRender ------------------------------
(***************************************************************************)
(* A reference renderer for a fragment of the XPR printer (src/io.cxx):    *)
(* the text `xpr_type` / `xpr_expr` must write for the types, names and    *)
(* atoms of IprUnify (growth of the specification beyond the listed        *)
(* properties, DESIGN section 5 item 6).                                   *)
(*                                                                         *)
(* The printer is a little state machine over its `padding`:               *)
(*   a token            writes its text and clears the padding,            *)
(*   an identifier      writes a blank first if the padding is `Before`,   *)
(*                      then its text, and sets the padding to `Before`,   *)
(*   raw text           (separators ", ", literal spellings) is written    *)
(*                      without looking at or changing the padding.        *)
(* A rendering is a record [t: text so far, p: padding, s: status]; status *)
(* "refused" means the printer must throw std::logic_error (a construct it *)
(* has no production for), "skip" that this fragment says nothing.         *)
(***************************************************************************)
EXTENDS IprUnify

Start == [t |-> "", p |-> "None", s |-> "ok"]
Tok(st, x) == IF st.s # "ok" THEN st ELSE [t |-> st.t \o x, p |-> "None", s |-> "ok"]
Idn(st, x) == IF st.s # "ok" THEN st ELSE [t |-> st.t \o (IF st.p = "Before" THEN " " ELSE "") \o x, p |-> "Before", s |-> "ok"]
Raw(st, x) == IF st.s # "ok" THEN st ELSE [st EXCEPT !.t = @ \o x]
Refused(st) == IF st.s # "ok" THEN st ELSE [st EXCEPT !.s = "refused"]
Skip(st) == [st EXCEPT !.s = "skip"]

\* spellings whose first character is a letter (the printer asks std::isalpha of the first code unit of an operator name)
AlphaWords == {"a", "b", "foo", "bar", "int", "C", "C++", "Java", "cdecl", "this", "default", "const", "unsigned long long",
               "static", "x1", "operator", "new[]", "zz", "x", "new", "delete"}
SymbolWords == {"+", "-", "*", "()", "[]", "==", "<=>", "+="}

Quals(st, q) ==
   LET a == IF Bit(q, 0) = 1 THEN Idn(st, "const") ELSE st
       b == IF Bit(q, 1) = 1 THEN Idn(a, "volatile") ELSE a
   IN IF Bit(q, 2) = 1 THEN Idn(b, "restrict") ELSE b

RECURSIVE RType(_, _, _), RExpr(_, _, _), RName(_, _, _), RTypes(_, _, _, _), RTypeExpr(_, _, _)

E(nd, i) == IF i <= NConst THEN ConstNodes[i] ELSE nd[i - NConst]

\* comma_separated<xpr_type>: ", " is raw text
RTypes(nd, st, ts, k) ==
   IF k > Len(ts) THEN st
   ELSE RTypes(nd, RType(nd, IF k = 1 THEN st ELSE Raw(st, ", "), ts[k]), ts, k + 1)

ExceptionSpec(nd, st, e) ==
   LET sp == Tok(st, " ") IN
   IF E(nd, e).c \in TypeCats
   THEN Tok(RType(nd, Tok(Idn(sp, "throw"), "("), e), ")")
   ELSE Tok(RExpr(nd, Tok(Idn(sp, "noexcept"), "("), e), ")")

\* the productions of xpr_type_expr_visitor, shared by xpr_type for the compound types
Compound(nd, st, n) ==
   CASE n.c = "Pointer" -> RType(nd, Tok(st, "*"), n.ops[1])
     [] n.c = "Reference" -> RType(nd, Tok(st, "&"), n.ops[1])
     [] n.c = "Rvalue_reference" -> RType(nd, Tok(Tok(st, "&"), "&"), n.ops[1])
     [] n.c = "Qualified" -> RType(nd, Quals(st, n.q), n.ops[1])
     [] n.c = "Array" -> RType(nd, Tok(RExpr(nd, Tok(st, "["), n.ops[2]), "]"), n.ops[1])
     [] n.c = "Function" ->
           RType(nd, ExceptionSpec(nd, Tok(RTypes(nd, Tok(st, "("), E(nd, n.ops[1]).ops, 1), ")"), n.ops[3]), n.ops[2])
     [] n.c = "Ptr_to_member" ->
           RType(nd, Tok(Tok(RType(nd, Tok(Tok(st, "*"), "["), n.ops[1]), "]"), ","), n.ops[2])
     [] n.c = "Forall" ->
           RTypeExpr(nd, Tok(Tok(RTypes(nd, Tok(st, "<"), E(nd, n.ops[1]).ops, 1), ">"), " "), n.ops[2])
     [] n.c = "Decltype" -> Tok(RExpr(nd, Tok(Tok(Idn(st, "decltype"), " "), "("), n.ops[1]), ")")

CompoundCats == {"Pointer", "Reference", "Rvalue_reference", "Qualified", "Array", "Function", "Ptr_to_member", "Forall",
                 "Decltype"}

\* xpr_type
RType(nd, st, i) ==
   LET n == E(nd, i) IN
   IF st.s # "ok" THEN st
   ELSE CASE n.c \in CompoundCats -> Compound(nd, st, n)
          [] n.c = "As_type_id" -> RName(nd, st, n.ops[1])            \* a built-in type or a named type: its name
          [] n.c = "As_type" -> RExpr(nd, st, n.ops[1])               \* the expression used as a type
          [] n.c \in {"Product", "Sum"} -> RTypes(nd, st, n.ops, 1)
          [] n.c = "Tor" -> Refused(st)                               \* its only name is the type-id of itself
          [] OTHER -> Skip(st)

\* xpr_type_expr (the target of a Forall): no production for products, sums and constructor types
RTypeExpr(nd, st, i) ==
   LET n == E(nd, i) IN
   IF st.s # "ok" THEN st
   ELSE CASE n.c \in CompoundCats -> Compound(nd, st, n)
          [] n.c = "As_type_id" -> RName(nd, st, n.ops[1])
          [] n.c = "As_type" -> RExpr(nd, st, n.ops[1])
          [] n.c \in {"Product", "Sum", "Tor"} -> Refused(st)
          [] OTHER -> Skip(st)

\* xpr_expr
RExpr(nd, st, i) ==
   LET n == E(nd, i) IN
   IF st.s # "ok" THEN st
   ELSE CASE n.c \in TypeCats -> RType(nd, st, i)
          [] n.c \in NameCats -> RName(nd, st, i)
          [] n.c = "Symbol" -> RName(nd, st, n.ops[1])
          [] n.c = "Literal" -> Raw(st, n.w)                          \* spellings without control characters
          [] n.c = "Phantom" -> st
          [] n.c = "Expr_list" -> st                                  \* the lists of this world are empty
          [] OTHER -> Skip(st)

RName(nd, st, i) ==
   LET n == E(nd, i) IN
   IF st.s # "ok" THEN st
   ELSE CASE n.c = "Identifier" -> Idn(st, n.w)
          [] n.c = "Operator" -> IF n.w \in AlphaWords THEN Idn(Idn(st, "operator"), n.w)
                                 ELSE IF n.w \in SymbolWords THEN Tok(Idn(st, "operator"), n.w)
                                 ELSE Skip(st)
          [] n.c = "Conversion" -> Tok(RType(nd, Tok(Idn(Idn(st, "operator"), "cast"), "<|"), n.ops[1]), "|>")
          [] n.c = "Suffix" -> Tok(RName(nd, Tok(Idn(st, "operator"), "\""), n.ops[1]), "\"")
          [] n.c = "Ctor_name" -> Idn(st, "#ctor")
          [] n.c = "Dtor_name" -> Idn(st, "#dtor")
          [] OTHER -> Skip(st)

\* what a fresh printer writes for entity i, through xpr_type for types and xpr_expr for everything else
Render(nd, i) == LET r == IF E(nd, i).c \in TypeCats THEN RType(nd, Start, i) ELSE RExpr(nd, Start, i)
                 IN [s |-> r.s, t |-> IF r.s = "ok" THEN r.t ELSE ""]
=============================================================================
