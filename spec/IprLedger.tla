------------------------------ MODULE IprLedger ------------------------------
(***************************************************************************)
(* Destroying a Lexicon (with its units and modules) returns every         *)
(* allocation made on its behalf (property C19).                           *)
(*                                                                         *)
(* The allocation ledger: `live` is the set of outstanding allocations,    *)
(* `ever` every allocation identity handed out so far.  A history runs     *)
(* between Begin (a Lexicon is about to be created) and End (it has been   *)
(* destroyed): at End the ledger must be back to what it was at Begin.     *)
(* Freeing something that is not outstanding (double free, foreign         *)
(* pointer) is not a step of the ledger.                                   *)
(***************************************************************************)
EXTENDS Naturals, FiniteSets, TLC

VARIABLES live, ever, base, open
lgvars == <<live, ever, base, open>>

LgInit == live = {} /\ ever = {} /\ base = {} /\ open = FALSE

Begin == ~open /\ open' = TRUE /\ base' = live /\ UNCHANGED <<live, ever>>
Alloc(a) == a \notin ever /\ live' = live \cup {a} /\ ever' = ever \cup {a} /\ UNCHANGED <<base, open>>
Free(a) == a \in live /\ live' = live \ {a} /\ UNCHANGED <<ever, base, open>>
\* everything allocated since Begin has been returned, and nothing that was outstanding before has been touched
End == open /\ live = base /\ open' = FALSE /\ UNCHANGED <<live, ever, base>>

\* a whole history summarised by counters (used for histories too long to validate allocation by allocation)
Summary(allocs, frees, outstanding, double_free, foreign_free) ==
   /\ allocs > 0 /\ frees = allocs /\ outstanding = 0 /\ double_free = 0 /\ foreign_free = 0
   /\ UNCHANGED lgvars

LedgerOK == live \subseteq ever /\ (open => TRUE)
=============================================================================
