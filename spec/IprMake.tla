------------------------------- MODULE IprMake -------------------------------
(***************************************************************************)
(* Generative factories of the make_ family: every node reports exactly the operands  *)
(* it was built from (C02), has the type its kind prescribes (C09), and    *)
(* refuses to read links that were never set (C14).                        *)
(*                                                                         *)
(* The table IprNodesTable!Factory says, per factory, which argument must  *)
(* come back under which accessor, the type rule and the settable links.   *)
(* State: `made`, the nodes created so far (identities continue after the  *)
(* operand pool), each with its factory, arguments and current links.      *)
(* Every value the interface returns is written as a sequence of integers: *)
(* <<id>> a node, <<0>> an empty Optional, <<>> an empty sequence,         *)
(* <<-1>> refused (std::logic_error), <<-2>> no such notion, <<n>> an      *)
(* enumerator or number, <<-3, t1, ..>> a product of types that is not a   *)
(* node of its own.                                                        *)
(***************************************************************************)
EXTENDS Naturals, Integers, Sequences, FiniteSets, TLC, IprNodesTable

VARIABLES made, mklast
mkvars == <<made, mklast>>

Refused == <<-1>>
NoNotion == <<-2>>

IdOf(k) == PoolLast + k                    \* identity of the k-th created node
IsMade(id) == id > PoolLast /\ id <= PoolLast + Len(made)
M(md, id) == md[id - PoolLast]

HasLink(nd, l) == l \in DOMAIN nd.links
LinkKind(f, l) == LET S == {i \in 1..Len(Factory[f].links) : Factory[f].links[i].l = l}
                  IN Factory[f].links[CHOOSE i \in S : TRUE].kind

\* type() of any entity, as a value
RECURSIVE TypeOf(_, _)
TypeVal(md, nd) ==
   LET t == Factory[nd.f].type IN
   CASE t.k = "given" -> <<nd.a[t.v]>>
     [] t.k = "given_opt" -> IF nd.a[t.v] = 0 THEN Refused ELSE <<nd.a[t.v]>>
     [] t.k = "fixed" -> <<t.v>>
     [] t.k = "borrow" -> TypeOf(md, nd.a[t.v])
     [] t.k = "borrow_link" -> IF HasLink(nd, t.l) THEN TypeOf(md, nd.links[t.l]) ELSE Refused
     [] t.k = "checked" -> IF HasLink(nd, t.l) THEN <<nd.links[t.l]>> ELSE Refused
     [] t.k = "product" -> LET items == IF HasLink(nd, t.l) THEN nd.links[t.l] ELSE <<>> IN
                           \* (an element that is itself a growing sequence has a product type that is no entity: it reads as -9)
                           <<-3>> \o [i \in 1..Len(items) |-> LET x == TypeOf(md, items[i]) IN
                                                                 IF x[1] = -3 THEN -9 ELSE IF Len(x) = 1 THEN x[1] ELSE -1]
     [] t.k = "never" -> Refused
     [] OTHER -> NoNotion
TypeOf(md, id) == IF id \in DOMAIN PoolTypeOf THEN <<PoolTypeOf[id]>>
                  ELSE IF id > PoolLast /\ id <= PoolLast + Len(md) THEN TypeVal(md, M(md, id))
                  ELSE <<-9>>              \* an operand whose type the table does not know: never borrowed from

\* the nodes a factory made with `id` as its v-th argument, in the order they were made (a block's handlers)
MadeWith(md, id, f, v) == LET ks == SelectSeq([k \in 1..Len(md) |-> k], LAMBDA k : md[k].f = f /\ md[k].a[v] = id)
                          IN [i \in 1..Len(ks) |-> IdOf(ks[i])]
AccVal(md, nd, s, id) ==
   CASE s.k = "arg" -> <<nd.a[s.v]>>
     [] s.k = "const" -> <<s.v>>
     [] s.k = "tyof" -> TypeOf(md, nd.a[s.v])
     [] s.k = "nameof" -> <<PoolNameOf[nd.a[s.v]]>>
     [] s.k = "identof" -> IF PoolNameOf[nd.a[s.v]] \in PoolIdentifiers THEN <<PoolNameOf[nd.a[s.v]]>> ELSE Refused
     [] s.k = "elems" -> PoolElemsOf[nd.a[s.v]]
     [] s.k = "checked" -> IF HasLink(nd, s.l) THEN <<nd.links[s.l]>> ELSE Refused
     [] s.k = "optional" -> IF HasLink(nd, s.l) THEN <<nd.links[s.l]>> ELSE <<0>>
     [] s.k = "pushed" -> IF HasLink(nd, s.l) THEN nd.links[s.l] ELSE <<>>
     [] s.k = "refused" -> Refused          \* nothing the client can reach ever sets it
     [] s.k = "absent" -> <<0>>
     [] s.k = "empty" -> <<>>
     [] s.k = "made_with" -> MadeWith(md, id, s.l, s.v)
     [] s.k = "via" -> IF HasLink(nd, s.l) THEN <<s.v>> ELSE Refused     \* read through a link (a function's parameters: its mapping's)

\* everything the interface must answer about a created node
Expected(md, id) ==
   LET nd == M(md, id)  F == Factory[nd.f] IN
   [cat |-> F.cat, acc |-> [x \in DOMAIN F.acc |-> IF F.acc[x].k = "self" THEN <<id>> ELSE AccVal(md, nd, F.acc[x], id)],
    type |-> TypeVal(md, nd)]

MkInit == made = <<>> /\ mklast = [op |-> "init", f |-> "", a |-> <<>>, n |-> 0, l |-> "", v |-> 0, r |-> 0]

Make(f, a) ==
   /\ f \in FactoryNames /\ Len(a) = Len(Factory[f].params)
   /\ made' = Append(made, [f |-> f, a |-> a, links |-> <<>>])
   /\ mklast' = [op |-> "make", f |-> f, a |-> a, n |-> IdOf(Len(made) + 1), l |-> "", v |-> 0, r |-> IdOf(Len(made) + 1)]

SetLink(id, l, v) ==
   /\ IsMade(id)
   /\ \E i \in 1..Len(Factory[M(made, id).f].links) : Factory[M(made, id).f].links[i].l = l
   /\ LET nd == M(made, id)
          new == IF LinkKind(nd.f, l) = "push"
                 THEN (IF HasLink(nd, l) THEN Append(nd.links[l], v) ELSE <<v>>)
                 ELSE v
      IN made' = [made EXCEPT ![id - PoolLast].links = (l :> new) @@ nd.links]
   /\ mklast' = [op |-> "set", f |-> M(made, id).f, a |-> <<>>, n |-> id, l |-> l, v |-> v, r |-> id]

\* C05 as far as this module sees it: a node changes only through an explicit SetLink on itself
OnlyClientChanges == [][\A k \in 1..Len(made) : made'[k] = made[k] \/ (mklast'.op = "set" /\ mklast'.n = IdOf(k))]_mkvars
=============================================================================
