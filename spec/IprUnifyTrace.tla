--------------------------- MODULE IprUnifyTrace ---------------------------
(***************************************************************************)
(* Binding B for IprUnify: a recorded execution of the real library is a   *)
(* behaviour of the specification.  One ndjson line per public call:       *)
(*   {op, a, q, w, out, r, o}   request, outcome, returned identity and    *)
(*                              the observation of the returned entity.    *)
(* Every line must be explained by Step of the module; all invariants are  *)
(* evaluated in every state of the trace.                                  *)
(***************************************************************************)
EXTENDS IprUnify, Json, IOUtils

VARIABLE l
tvars == <<node, table, last, l>>

T == ndJsonDeserialize(IOEnv.TRACE)
Ev == T[l]

NP(i) == IF i <= NConst THEN ConstNodes[i] ELSE node'[i - NConst]

TruthOps == {"eq_linkage", "eq_callconv", "eq_transfer", "eq_logogram"}
\* constructors that the properties leave free to share or not (they are neither `make_` nor in C01's list)
LooseOps == {"get_decltype", "get_auto"}

TInit == UInit /\ l = 1

TConsts == /\ Ev.op = "init"
           /\ Ev.a = [i \in 1..NConst |-> i]         \* C13: the constants are pairwise distinct entities
           /\ Ev.consts = ConstNodes                 \* each reads as documented: kind, spelling, name, type, transfer
           /\ Ev.shared = TRUE                       \* and another Lexicon alive at the same time returns the same nodes
           /\ UNCHANGED uvars

TReset == /\ Ev.op = "reset"
          /\ node' = <<>> /\ table' = <<>>
          /\ last' = Outcome(Req("init", <<>>, 0, ""), "ok", 0)

\* C05: re-reading an entity returned earlier gives what it gave then
TObserved == /\ Ev.op = "observe"
             /\ Ev.a[1] \in (NConst + 1)..NN /\ N(Ev.a[1]) = Ev.o
             /\ UNCHANGED uvars

TCall == /\ Ev.op \notin {"init", "reset", "observe"}
         /\ LET r == Req(Ev.op, Ev.a, Ev.q, Ev.w) IN
            IF Ev.op \in LooseOps /\ Ev.out = "ok" /\ Ev.r <= NN /\ Resolve(r).kind = "fresh"
            THEN /\ N(Ev.r) = Resolve(r).rec /\ Ev.o = Resolve(r).rec
                 /\ last' = Outcome(r, "ok", Ev.r)
                 /\ UNCHANGED <<node, table>>
            ELSE IF AltOfIn(node, table, r) # 0 /\ Ev.out = "ok" /\ Ev.r = AltOfIn(node, table, r)
            THEN /\ Ev.o = ConstNodes[Ev.r]                 \* the constant itself instead of a look-alike: also allowed
                 /\ last' = Outcome(r, "ok", Ev.r)
                 /\ UNCHANGED <<node, table>>
            ELSE /\ Step(r)
                 /\ last'.out = Ev.out
                 /\ last'.r = Ev.r
                 /\ (Ev.out = "ok" /\ Ev.op \notin TruthOps) => NP(Ev.r) = Ev.o

TNext == /\ l <= Len(T)
         /\ (TConsts \/ TReset \/ TObserved \/ TCall)
         /\ l' = l + 1

TSpec == TInit /\ [][TNext]_tvars

Accepted == TLCGet("stats").diameter - 1 = Len(T)
=============================================================================
