----------------------------- MODULE IprRenderMC -----------------------------
(* Binding A for IprRender: the behaviours of IprUnifyMC, each step with the text a fresh printer must write for the      *)
(* entity the call returned (entities never change, so the text is computed from the final state of the behaviour).      *)
EXTENDS IprUnifyMC, IprRender

Unprinted == {"Linkage", "CallConv", "Transfer", "Logogram", "Template", "None"}
TxtOf(ev) == IF ev.out = "ok" /\ ev.op \notin {"eq_linkage", "eq_callconv", "eq_transfer", "eq_logogram"}
                /\ E(node, ev.r).c \notin Unprinted
             THEN Render(node, ev.r) ELSE [s |-> "skip", t |-> ""]
EmitR == (Record /\ steps = Depth) =>
            PrintT(<<"BEH", ToJson([k \in 1..Len(hist) |-> [ev |-> hist[k].ev, txt |-> TxtOf(hist[k].ev)]])>>)
=============================================================================
