------------------------------- MODULE IprForms -------------------------------
(***************************************************************************)
(* The small visitor families next to the node visitor (growth of the      *)
(* specification, DESIGN section 5 items 1-2): declarator forms            *)
(* (constraints, requirements, indirectors, species, morphisms,            *)
(* declarators, provisions, initializers, designators), attributes and     *)
(* capture specifications.  Every hook is pure: there are no defaults.     *)
(* accept() of an object of class c with a visitor of family f enters the  *)
(* hook f declares for c, exactly once, and no other hook.  A class        *)
(* belongs to the families listed for it (braced and designated-list       *)
(* provisions are both provisions and elemental initializers).             *)
(***************************************************************************)
EXTENDS Sequences, FiniteSets, TLC

Families ==
   [ Constraint  |-> {"Constraint::Monadic", "Constraint::Polyadic"},
     Requirement |-> {"Requirement::Simple", "Requirement::Type", "Requirement::Compound", "Requirement::Nested"},
     Indirector  |-> {"Indirector::Pointer", "Indirector::Reference", "Indirector::Member"},
     Species     |-> {"Species_declarator::Unqualified_id", "Species_declarator::Pack", "Species_declarator::Qualified_id",
                      "Species_declarator::Parenthesized"},
     Morphism    |-> {"Morphism::Function", "Morphism::Array"},
     Declarator  |-> {"Declarator::Term", "Declarator::Targeted"},
     Provision   |-> {"Classic_provision", "Parenthesized_provision", "Braced_provision", "Designated_list_provision"},
     Initializer |-> {"Braced_provision", "Designated_list_provision"},
     Designator  |-> {"Field_designator", "Slot_designator"},
     Attribute   |-> {"BasicAttribute", "ScopedAttribute", "LabeledAttribute", "CalledAttribute", "ExpandedAttribute",
                      "FactoredAttribute", "ElaboratedAttribute"},
     Capture     |-> {"Default", "Implicit_object", "Enclosing_local", "Binding", "Expansion"} ]

Classes == UNION {Families[f] : f \in DOMAIN Families}
FamiliesOf(c) == {f \in DOMAIN Families : c \in Families[f]}
\* the hooks an accept() must run through: the hook of the class itself, once
Hooks(c, f) == IF c \in Families[f] THEN <<c>> ELSE <<>>

\* sanity of the table: a class is in one family, except the two provisions that are also elemental initializers
TableSane == \A c \in Classes : Cardinality(FamiliesOf(c)) = (IF c \in {"Braced_provision", "Designated_list_provision"} THEN 2 ELSE 1)
ASSUME TableSane
=============================================================================
