----------------------------- MODULE IprUnifyMC -----------------------------
(***************************************************************************)
(* Bounded instance of IprUnify used in two ways:                          *)
(*  - exhaustive check of the invariants (Record = FALSE: histories are    *)
(*    not kept, states merge, deeper bounds);                              *)
(*  - behaviour generation for binding A (Record = TRUE: every behaviour   *)
(*    of length Depth is printed as JSON with the predicted outcome of     *)
(*    every call and replayed into the real library).                      *)
(***************************************************************************)
EXTENDS IprUnify, Json

CONSTANTS OpSet,       \* operation names explored
          TypeSeeds,   \* constant identities usable as type operands
          ExprSeeds,   \* constant identities usable as (non-type) expression operands
          IdSeeds,     \* constant identifiers usable as operands
          WordSet,     \* spellings
          QualSet,     \* qualifier bit sets offered to get_qualified (0 = empty set)
          MaxSeq,      \* longest sequence offered to product / sum
          Prelude,     \* sequence of requests executed before exploration starts (part of every behaviour)
          Depth,       \* number of explored calls after the prelude
          Record       \* keep and print histories?

VARIABLES hist, steps
vars == <<node, table, last, hist, steps>>

Created == (NConst + 1)..NN
Types == TypeSeeds \cup {i \in Created : IsType(i)}
Exprs == ExprSeeds \cup {i \in Created : N(i).c \in {"Symbol", "Literal", "Phantom"}}
Products == {i \in Created : N(i).c = "Product"}
Sums == {i \in Created : N(i).c = "Sum"}
Idents == IdSeeds \cup {i \in Created : N(i).c = "Identifier"}
Linkages == {CxxLinkId, CLinkId} \cup {i \in Created : N(i).c = "Linkage"}
CallConvs == {NaturalCcId} \cup {i \in Created : N(i).c = "CallConv"}
Transfers == {NaturalXferId} \cup {i \in Created : N(i).c = "Transfer"}
Logograms == {i \in Created : N(i).c = "Logogram"}
ExprLists == {i \in Created : N(i).c = "Expr_list"}
Templates == {i \in Created : N(i).c = "Template"}

SeqsUpTo(S, n) == UNION {[1..k -> S] : k \in 0..n}

R1(op, S) == {Req(op, <<x>>, 0, "") : x \in S}
R2(op, S, T) == {Req(op, <<x, y>>, 0, "") : x \in S, y \in T}
R3(op, S, T, U) == {Req(op, <<x, y, z>>, 0, "") : x \in S, y \in T, z \in U}
RW(op) == {Req(op, <<>>, 0, w) : w \in WordSet}

Requests(op) ==
   CASE op \in {"get_pointer", "get_reference", "get_rvalue_reference", "get_conversion", "get_ctor_name",
                "get_dtor_name", "get_this"} -> R1(op, Types)
     [] op = "get_array" -> R2(op, Types, Exprs)
     [] op = "get_qualified" -> {Req(op, <<t>>, q, "") : t \in Types, q \in QualSet}
     [] op = "get_function" -> R2(op, Products, Types)
     [] op = "get_function_x" -> R3(op, Products, Types, Transfers)
     [] op = "get_function_e" -> R3(op, Products, Types, Exprs)
     [] op = "get_function_ex" -> {Req(op, <<s, t, e, x>>, 0, "") : s \in Products, t \in Types, e \in Exprs, x \in Transfers}
     [] op \in {"get_product", "get_sum", "get_product_ref", "get_sum_ref"} -> {Req(op, s, 0, "") : s \in SeqsUpTo(Types, MaxSeq)}
     [] op \in {"get_product_of", "get_sum_of"} -> R1(op, Products \cup Sums)
     [] op = "get_forall" -> R2(op, Products, Types)
     [] op = "get_ptr_to_member" -> R2(op, Types, Types)
     [] op = "get_tor" -> R2(op, Products, Sums)
     [] op = "get_as_type" -> R1(op, Exprs \cup Types)
     [] op = "get_as_type_x" -> R2(op, Exprs \cup Types, Transfers)
     [] op = "get_as_type_id" -> R1(op, Idents)
     [] op = "get_decltype" -> R1(op, {NullptrId})
     [] op = "get_transfer_from_linkage" -> R1(op, Linkages)
     [] op = "get_transfer_from_convention" -> R1(op, CallConvs)
     [] op = "get_transfer" -> R2(op, Linkages, CallConvs)
     [] op \in {"get_identifier", "get_operator", "get_logogram", "get_linkage", "get_calling_convention", "get_identifier_s",
                "get_operator_s", "get_linkage_s"} -> RW(op)
     [] op \in {"get_suffix", "get_label"} -> R1(op, Idents)
     [] op = "get_guide_name" -> R1(op, Templates)
     [] op = "get_template_id" -> R2(op, Exprs, ExprLists)
     [] op = "get_symbol" -> R2(op, Idents, Types)
     [] op \in {"get_literal", "make_literal", "get_literal_s", "make_literal_s"} -> {Req(op, <<t>>, 0, w) : t \in Types, w \in WordSet}
     [] op = "eq_linkage" -> R2(op, Linkages, Linkages)
     [] op = "eq_callconv" -> R2(op, CallConvs, CallConvs)
     [] op = "eq_transfer" -> R2(op, Transfers, Transfers)
     [] op = "eq_logogram" -> R2(op, Logograms, Logograms)
     [] op \in {"mk_class", "mk_phantom", "mk_expr_list"} -> {Req(op, <<>>, 0, "")}
     [] OTHER -> {}

NoObs == Rec("None", <<>>, 0, "", "", 0)
ObsOf(l, nd) == IF l.out = "ok" /\ l.op \notin {"eq_linkage", "eq_callconv", "eq_transfer", "eq_logogram"}
                THEN (IF l.r <= NConst THEN ConstNodes[l.r] ELSE nd[l.r - NConst]) ELSE NoObs

Next == /\ steps < Depth
        /\ \E op \in OpSet : \E r \in Requests(op) :
              /\ Step(r)
              /\ steps' = steps + 1
              /\ hist' = IF Record THEN Append(hist, [ev |-> last', o |-> ObsOf(last', node'), alt |-> AltOfIn(node, table, r)]) ELSE hist

\* State after running the first n prelude requests from the initial state.
RECURSIVE AfterPrelude(_)
AfterPrelude(n) ==
   IF n = 0 THEN [node |-> <<>>, table |-> <<>>, last |-> Outcome(Req("init", <<>>, 0, ""), "ok", 0), hist |-> <<>>]
   ELSE LET p == AfterPrelude(n - 1)
            s == ApplyF(p.node, p.table, Prelude[n])
            ob == IF s.last.out = "ok" /\ s.last.op \notin {"eq_linkage", "eq_callconv", "eq_transfer", "eq_logogram"}
                  THEN (IF s.last.r <= NConst THEN ConstNodes[s.last.r] ELSE s.node[s.last.r - NConst]) ELSE NoObs
        IN [node |-> s.node, table |-> s.table, last |-> s.last,
            hist |-> Append(p.hist, [ev |-> s.last, o |-> ob, alt |-> AltOfIn(p.node, p.table, Prelude[n])])]

Init == LET p == AfterPrelude(Len(Prelude)) IN
        /\ node = p.node /\ table = p.table /\ last = p.last
        /\ hist = (IF Record THEN p.hist ELSE <<>>)
        /\ steps = 0
Spec == Init /\ [][Next]_vars

\* Preludes are given per configuration as a definition override (Prelude <- SomePrelude).
NoPrelude == <<>>
PreludeXfer == << Req("get_linkage", <<>>, 0, "Java"), Req("get_calling_convention", <<>>, 0, "cdecl"),
                 Req("get_transfer", <<72, 73>>, 0, ""), Req("get_transfer_from_linkage", <<35>>, 0, ""),
                 Req("get_product", <<12>>, 0, "") >>

PreludeClass == << Req("mk_class", <<>>, 0, "") >>
PreludeCompound == << Req("get_product", <<12>>, 0, ""), Req("get_product", <<>>, 0, ""),
                     Req("get_sum", <<12>>, 0, ""), Req("mk_class", <<>>, 0, "") >>
PreludeAtoms == << Req("mk_expr_list", <<>>, 0, ""), Req("mk_phantom", <<>>, 0, ""),
                  Req("get_identifier", <<>>, 0, "foo") >>

\* always true; prints each complete behaviour once (every behaviour is a distinct state because of hist)
Emit == (Record /\ steps = Depth) => PrintT(<<"BEH", ToJson(hist)>>)

StableMC == [][/\ Len(node') >= Len(node)
               /\ SubSeq(node', 1, Len(node)) = node
               /\ \A k \in DOMAIN table : k \in DOMAIN table' /\ table'[k] = table[k]]_vars
=============================================================================
