----------------------------- MODULE IprUnitsTrace -----------------------------
(* Binding B for IprUnits: {"op":..,"a":[..],"o":{"units":[..],"mods":[..]}} - the whole observation after every call *)
EXTENDS IprUnits, Json, IOUtils
VARIABLE l
tvars == <<mods, units, ulast, l>>
T == ndJsonDeserialize(IOEnv.TRACE)
Ev == T[l]
TInit == UInit /\ l = 1
SameSeq(x, y) == Len(x) = Len(y) /\ \A i \in 1..Len(x) : x[i] = y[i]
TCall == /\ Ev.op # "reset"
         /\ Call(Ev.op, Ev.a)
         /\ LET e == Obs(mods', units') IN SameSeq(Ev.o.units, e.units) /\ SameSeq(Ev.o.mods, e.mods)
TReset == Ev.op = "reset" /\ mods' = <<>> /\ units' = <<>> /\ ulast' = [op |-> "init", a |-> <<>>]
TNext == l <= Len(T) /\ (TCall \/ TReset) /\ l' = l + 1
TSpec == TInit /\ [][TNext]_tvars
Accepted == TLCGet("stats").diameter - 1 = Len(T)
=============================================================================
