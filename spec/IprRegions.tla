------------------------------ MODULE IprRegions ------------------------------
(***************************************************************************)
(* Regions form a tree rooted at the global region of a unit; owners,      *)
(* levels and positions are right (property C12).                          *)
(*                                                                         *)
(* State: `ent`, the sequence of every entity created (position =          *)
(* identity, in the order the harness sees them).  One record shape:       *)
(*   c      kind ("Region", "Class", "Block", "Parameter", "Unit", ...)    *)
(*   parent Region: enclosing region (0 for a global region);              *)
(*          member declarations: their home region (-1: not prescribed, for *)
(*          the exception parameter of a handler); units: their module     *)
(*   owner  Region: the entity it names as owner, 0 = none,                *)
(*          -1 = not prescribed by the property (and not observed)         *)
(*   of     the (main) region of a region-opening entity, else 0           *)
(*   lvl    nesting level of a parameter / parameter-list owner;           *)
(*          Region: 1 if it can only hold one kind of member (parameters,  *)
(*          enumerators, bases, an exception parameter), else 0            *)
(*   pos    zero-based position of a member declaration                    *)
(*   glob   Region: does it report itself global                           *)
(*   depth  Region: number of outward steps to reach the global region     *)
(*   binds  Region: declarations bound in it at creation                   *)
(***************************************************************************)
EXTENDS Naturals, Integers, Sequences, FiniteSets, TLC

VARIABLES ent, rglast
rgvars == <<ent, rglast>>

E(c, parent, owner, of, lvl, pos, glob, depth, binds) ==
   [c |-> c, parent |-> parent, owner |-> owner, of |-> of, lvl |-> lvl, pos |-> pos, glob |-> glob, depth |-> depth,
    binds |-> binds]
Plain(c, of, lvl) == E(c, 0, 0, of, lvl, 0, FALSE, 0, <<>>)
Member(c, home, lvl, pos) == E(c, home, 0, 0, lvl, pos, FALSE, 0, <<>>)

IsRegion(en, i) == i \in 1..Len(en) /\ en[i].c = "Region"
Regions(en) == {i \in 1..Len(en) : en[i].c = "Region"}
\* a region enclosed by p
Sub(en, p, owner, hom) == E("Region", p, owner, 0, hom, 0, FALSE, en[p].depth + 1, <<>>)
Root(owner) == E("Region", 0, owner, 0, 0, 0, TRUE, 0, <<>>)

MembersOf(en, home, c) == {i \in 1..Len(en) : en[i].c = c /\ en[i].parent = home}

Opening == {"Class", "Union", "Namespace", "Closure", "Enum", "Block", "Mapping", "Lambda", "Requires", "Where", "Morphism"}

\* The entities a call adds, in order, given the state `en` (n = Len(en)).
Effects(en, op, a) ==
   LET n == Len(en) IN
   CASE op \in {"make_unit"} ->
           << Plain("Unit", n + 3, 0), Plain("Namespace", n + 3, 0), Root(n + 2) >>
     [] op = "make_module" ->            \* a module and its interface unit
           << Plain("Module", 0, 0), [Plain("Unit", n + 4, 0) EXCEPT !.parent = n + 1], Plain("Namespace", n + 4, 0), Root(n + 3) >>
     [] op = "make_module_unit" ->
           << [Plain("Unit", n + 3, 0) EXCEPT !.parent = a[1]], Plain("Namespace", n + 3, 0), Root(n + 2) >>
     [] op = "make_subregion" -> << Sub(en, a[1], -1, 0) >>
     [] op = "make_class" ->
           << Plain("Class", n + 2, 0), Sub(en, a[1], n + 1, 0), Sub(en, a[1], -1, 1) >>
     [] op \in {"make_union", "make_namespace", "make_closure", "make_enum", "make_block"} ->
           LET c == CASE op = "make_union" -> "Union" [] op = "make_namespace" -> "Namespace"
                      [] op = "make_closure" -> "Closure" [] op = "make_enum" -> "Enum" [] OTHER -> "Block"
           IN << Plain(c, n + 2, 0), Sub(en, a[1], n + 1, IF c = "Enum" THEN 1 ELSE 0) >>
     [] op \in {"make_mapping", "make_lambda"} ->
           << Plain(IF op = "make_mapping" THEN "Mapping" ELSE "Lambda", n + 2, a[2]), Sub(en, a[1], n + 1, 1) >>
     [] op \in {"make_requires", "make_function_morphism"} ->
           << Plain(IF op = "make_requires" THEN "Requires" ELSE "Morphism", n + 2, a[2]), Sub(en, a[1], -1, 1) >>
     [] op = "make_where" -> << Plain("Where", n + 2, 0), Sub(en, a[1], -1, 0) >>
     [] op = "new_handler" ->
           \* handler, its exception parameter, the region binding exactly that parameter (enclosed by what encloses
           \* the guarded block), the body block and the body's region (enclosed by the parameter's region)
           LET guarded == en[a[1]].of
               outer == en[guarded].parent
               eh == E("Region", outer, -1, 0, 1, 0, FALSE, en[outer].depth + 1, <<n + 2>>)
           IN << Plain("Handler", n + 5, 0), Member("EH_parameter", -1, 0, 0), eh, Plain("Block", n + 5, 1),
                 E("Region", n + 3, n + 4, 0, 0, 0, FALSE, en[outer].depth + 2, <<>>) >>
     [] op = "add_param" ->
           << Member("Parameter", en[a[1]].of, en[a[1]].lvl, Cardinality(MembersOf(en, en[a[1]].of, "Parameter"))) >>
     [] op = "add_enumerator" ->
           << Member("Enumerator", en[a[1]].of, 0, Cardinality(MembersOf(en, en[a[1]].of, "Enumerator"))) >>
     [] op = "declare_base" ->
           << Member("Base_type", en[a[1]].of + 1, 0, Cardinality(MembersOf(en, en[a[1]].of + 1, "Base_type"))) >>

RgOps == {"make_unit", "make_module", "make_module_unit", "make_subregion", "make_class", "make_union", "make_namespace", "make_closure",
        "make_enum", "make_block", "make_mapping", "make_lambda", "make_requires", "make_function_morphism", "make_where",
        "new_handler", "add_param", "add_enumerator", "declare_base"}
Admissible(en, op, a) ==
   /\ op \in RgOps                           \* (anything else in a recorded history -- a crash, say -- is not a step)
   /\ op \in {"make_unit", "make_module"} \/ Len(a) >= 1
   /\ op \in {"make_mapping", "make_lambda", "make_requires", "make_function_morphism"} => Len(a) >= 2
   /\ CASE op \in {"make_unit", "make_module"} -> TRUE
        [] op = "make_module_unit" -> a[1] \in 1..Len(en) /\ en[a[1]].c = "Module"
        \* (a Block with lvl = 1 is the body of a handler: it has no handlers of its own)
        [] op = "new_handler" -> a[1] \in 1..Len(en) /\ en[a[1]].c = "Block" /\ en[a[1]].lvl = 0
        [] op = "add_param" -> a[1] \in 1..Len(en) /\ en[a[1]].c \in {"Mapping", "Lambda", "Requires", "Morphism"}
        [] op = "add_enumerator" -> a[1] \in 1..Len(en) /\ en[a[1]].c = "Enum"
        [] op = "declare_base" -> a[1] \in 1..Len(en) /\ en[a[1]].c = "Class"
        [] op = "make_subregion" -> IsRegion(en, a[1]) /\ en[a[1]].lvl = 0
        [] OTHER -> IsRegion(en, a[1])

Call(op, a) ==
   /\ Admissible(ent, op, a)
   /\ ent' = ent \o Effects(ent, op, a)
   /\ rglast' = [op |-> op, a |-> a, r |-> Len(ent) + 1]

RgInit == ent = <<>> /\ rglast = [op |-> "init", a |-> <<>>, r |-> 0]

---------------------------------------------------------------------------
(* Invariants                                                              *)
RECURSIVE Reaches(_, _, _)
Reaches(en, r, fuel) == IF en[r].parent = 0 THEN TRUE ELSE IF fuel = 0 THEN FALSE ELSE Reaches(en, en[r].parent, fuel - 1)

WellFounded == \A r \in Regions(ent) : Reaches(ent, r, Len(ent)) /\ (ent[r].parent # 0 => IsRegion(ent, ent[r].parent) /\ ent[r].parent < r)
OnlyRootGlobal == \A r \in Regions(ent) : ent[r].glob = (ent[r].parent = 0)
DepthRight == \A r \in Regions(ent) : ent[r].depth = IF ent[r].parent = 0 THEN 0 ELSE ent[ent[r].parent].depth + 1
\* class, union, enum, namespace, closure, block, mapping, lambda: their region names them as owner
OwnerIsEntity == \A i \in 1..Len(ent) :
                    ent[i].c \in {"Class", "Union", "Enum", "Namespace", "Closure", "Block", "Mapping", "Lambda"} =>
                       ent[ent[i].of].c = "Region" /\ ent[ent[i].of].owner = i
HandlerShape == \A i \in 1..Len(ent) : ent[i].c = "Handler" =>
                   LET body == ent[i].of  eh == ent[body].parent IN
                   /\ ent[eh].binds = <<i + 1>> /\ ent[i + 1].c = "EH_parameter"
Positions == \A i \in 1..Len(ent) : ent[i].c \in {"Parameter", "Enumerator", "Base_type"} =>
                ent[i].pos = Cardinality({j \in 1..(i - 1) : ent[j].c = ent[i].c /\ ent[j].parent = ent[i].parent})
RgInvariant == WellFounded /\ OnlyRootGlobal /\ DepthRight /\ OwnerIsEntity /\ HandlerShape /\ Positions
Grows == [][Len(ent') >= Len(ent) /\ SubSeq(ent', 1, Len(ent)) = ent]_rgvars
=============================================================================
