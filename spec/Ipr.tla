---------------------------------- MODULE Ipr ----------------------------------
(***************************************************************************)
(* One Lexicon with its units as a whole: the composition of the module    *)
(* families.  The state of the library, as far as the specification sees   *)
(* it, is the product of                                                   *)
(*    the unification tables            (IprUnify:      node, table)       *)
(*    the scopes                        (IprScopes:     decls, ndecl)      *)
(*    the region tree                   (IprRegions:    ent)               *)
(*    the substitutions                 (IprSubst:      subst)             *)
(*    the units and modules             (IprUnits:      mods, units)       *)
(*    the specifier/qualifier registers (IprSpecifiers: spec, qual)        *)
(* and a public call is a step of exactly one family that leaves the state *)
(* of every other family as it was.  That frame condition is what makes    *)
(* the per-family checks sufficient: an interleaving of calls of different *)
(* families is explained family by family.  It is also the system-level    *)
(* reading of C05 (nothing returned earlier changes because something else *)
(* is built).  TLC checks the joint invariant and the frame property on a  *)
(* small alphabet per family (IprCompose.cfg via bin/extras compose).      *)
(***************************************************************************)
EXTENDS Naturals, Sequences, FiniteSets, TLC

CONSTANTS NNames, NT,        \* IprScopes
          NParam, NValue,    \* IprSubst
          NDecl, NIdent,     \* IprUnits
          MaxSteps

VARIABLES node, table, last,           \* IprUnify
          decls, ndecl, sclast,        \* IprScopes
          ent, rglast,                 \* IprRegions
          subst, slast,                \* IprSubst
          mods, units, ulast,          \* IprUnits
          spec, qual,                  \* IprSpecifiers
          steps

U  == INSTANCE IprUnify
Sc == INSTANCE IprScopes
Rg == INSTANCE IprRegions
Sb == INSTANCE IprSubst
Un == INSTANCE IprUnits
Sp == INSTANCE IprSpecifiers

uV  == <<node, table, last>>
scV == <<decls, ndecl, sclast>>
rgV == <<ent, rglast>>
sbV == <<subst, slast>>
unV == <<mods, units, ulast>>
spV == <<spec, qual>>
vars == <<uV, scV, rgV, sbV, unV, spV, steps>>

Init == /\ U!UInit /\ Sc!ScInit /\ Rg!RgInit /\ Sb!SbInit /\ Un!UInit /\ Sp!SInit
        /\ steps = 0

\* a small alphabet per family (enough for every family to move and to revisit what it built)
UnifyReqs == {U!Req("get_pointer", <<12>>, 0, ""), U!Req("get_qualified", <<12>>, 1, ""), U!Req("get_identifier", <<>>, 0, "foo"),
              U!Req("get_pointer", <<72>>, 0, "")}
UnifyStep == \E r \in UnifyReqs : (\A i \in 1..Len(r.a) : r.a[i] <= U!NN) /\ U!Step(r)
ScopeStep == \E k \in {"var", "typedecl"} : \E n \in 1..2 : Sc!Declare(1, k, n, 1)
RegionStep == \E op \in {"make_unit", "make_class", "make_block"} :
                 \E a \in (IF op = "make_unit" THEN {<<>>} ELSE {<<p>> : p \in Rg!Regions(ent)}) : Rg!Call(op, a)
SubstStep == \/ Sb!MakeGeneral
             \/ \E s \in 1..Len(subst) : \E p \in 1..NParam : \E v \in 1..(NParam + NValue) : Sb!Bind(s, p, v)
             \/ \E s \in 1..Len(subst) : \E p \in 1..NParam : Sb!Apply(s, p)
UnitStep == \E op \in {"new_unit", "new_module", "make_unit", "import"} :
               \E a \in (CASE op \in {"new_unit", "new_module"} -> {<<>>}
                           [] op = "make_unit" -> {<<m>> : m \in 1..Len(mods)}
                           [] OTHER -> {<<u, m>> : u \in 1..Len(units), m \in 1..Len(mods)}) : Un!Call(op, a)
SpecStep == \/ \E n \in {"static", "inline"} : Sp!Coord("spec", 1, n)
            \/ Sp!Or("spec", 2, 1, 2)
            \/ Sp!Coord("qual", 1, "const")

Next == /\ steps < MaxSteps
        /\ steps' = steps + 1
        /\ \/ UnifyStep  /\ UNCHANGED <<scV, rgV, sbV, unV, spV>>
           \/ ScopeStep  /\ UNCHANGED <<uV, rgV, sbV, unV, spV>>
           \/ RegionStep /\ UNCHANGED <<uV, scV, sbV, unV, spV>>
           \/ SubstStep  /\ UNCHANGED <<uV, scV, rgV, unV, spV>>
           \/ UnitStep   /\ UNCHANGED <<uV, scV, rgV, sbV, spV>>
           \/ SpecStep   /\ UNCHANGED <<uV, scV, rgV, sbV, unV>>
Spec == Init /\ [][Next]_vars

\* every family's invariant holds in every reachable state of the whole
Invariant == /\ U!UInvariant /\ Sc!ScInvariant /\ Rg!RgInvariant
             /\ Sb!SbTypeOK /\ Sb!ElementaryHasOneBinding /\ Un!UnitsInvariant /\ Sp!TypeOK

\* a call moves one family only (and within it, the families' own frame properties say what may move)
Changed(v) == v' # v
OneFamilyMoves == [][Cardinality({i \in 1..6 : Changed(<<uV, scV, rgV, sbV, unV, spV>>[i])}) <= 1]_vars
Monotone == [][/\ Len(node') >= Len(node) /\ SubSeq(node', 1, Len(node)) = node
               /\ Len(ent') >= Len(ent) /\ SubSeq(ent', 1, Len(ent)) = ent
               /\ ndecl' >= ndecl /\ Len(units') >= Len(units) /\ Len(mods') >= Len(mods) /\ Len(subst') >= Len(subst)]_vars
=============================================================================
