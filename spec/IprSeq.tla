-------------------------------- MODULE IprSeq --------------------------------
(***************************************************************************)
(* The Sequence interface (properties C14 and C15): a sequence is the list *)
(* of what was appended to it; positional access inside the bounds yields  *)
(* the element, at or beyond size() it is refused with a logic error;      *)
(* iteration visits exactly size() elements in positional order; empty,    *)
(* begin/end and the helper operations of Product, Sum, Expr_list, Scope   *)
(* and Parameter_list are defined from size and positional access.         *)
(* Elements are numbered 1, 2, ... in the order they were appended.        *)
(***************************************************************************)
EXTENDS Naturals, Integers, Sequences, TLC

VARIABLES s, sqlast
sqvars == <<s, sqlast>>

Refused == -1
Extra == 3                      \* positions probed beyond size(): size, size+1, size+2, and the largest index
Huge == 16                      \* positions far beyond size() whose low 8, 16, 31, 32, 33, 48 or 63 bits are a position inside the bounds

At(q, i) == IF i < Len(q) THEN q[i + 1] ELSE Refused                 \* i is zero-based

\* everything the interface answers about a sequence holding q
Obs(q) == [first |-> (IF Len(q) = 0 THEN Refused ELSE q[Len(q)]),       \* the newest element, asked for before anything else
           atrev |-> [i \in 1..(Len(q) + Extra) |-> At(q, Len(q) + Extra - i)],  \* positions size+2 down to 0, in that order
           size |-> Len(q),
           empty |-> (Len(q) = 0),
           at |-> [i \in 1..(Len(q) + Extra) |-> At(q, i - 1)],       \* positions 0 .. size+2
           atmax |-> Refused,                                         \* position SIZE_MAX
           huge |-> [i \in 1..Huge |-> Refused],                      \* 2^k + j for k in {8,16,31,32,33,48,63}, j in {0, size-1}; SIZE_MAX-1; 2^63-1
           iter |-> q,                                                \* begin() .. end()
           riter |-> [i \in 1..Len(q) |-> q[Len(q) + 1 - i]],          \* --end() .. begin(), read through operator->
           post |-> q,                                                \* the same walk with it++
           rpost |-> [i \in 1..Len(q) |-> q[Len(q) + 1 - i]],         \* from the last position down to begin(), reading the value of it--
           fwalk |-> q,                                               \* read *it, then the statement it++, from begin() to end()
           rwalk |-> [i \in 1..Len(q) |-> q[Len(q) + 1 - i]],         \* read *it, then the statement it--, from the last position down
           eqd |-> [i \in 1..(Len(q) + 1) |-> TRUE],                   \* position(i) == position(i) and not !=, i in 0..size
           eqo |-> [i \in 1..Len(q) |-> FALSE],                        \* position(i) == position(i+1)
           bend |-> <<TRUE, TRUE, Len(q) = 0>>,                        \* begin() == position(0), end() == position(size), begin() == end()
           steps |-> Len(q),                                          \* increments from begin() to reach end()
           hsize |-> Len(q),                                          \* size() helper of the owning node, where there is one
           hat |-> [i \in 1..(Len(q) + Extra) |-> At(q, i - 1)]]      \* operator[] helper, where there is one

SqInit == s = <<>> /\ sqlast = [op |-> "init", r |-> 0]
Push == s' = Append(s, Len(s) + 1) /\ sqlast' = [op |-> "push", r |-> Len(s) + 1]
=============================================================================
