---------------------------- MODULE IprThreadsTrace ----------------------------
(* The trace of every thread is validated against the *sequential* specification IprUnify (each thread and round is one  *)
(* execution); the final line of a round says what the Lexicons that were alive together had in common.                  *)
EXTENDS IprUnifyTrace
TIsolation == /\ Ev.op = "isolation"
              /\ Ev.shared_nonconstant = 0          \* nothing but the constants in common
              /\ Ev.constants_differ = 0            \* and the constants are the same nodes for every Lexicon
              /\ Ev.differs_from_running_alone = 0  \* every thread got and printed what the same program gets and prints alone
              /\ UNCHANGED uvars
ThrNext == /\ l <= Len(T)
           /\ (TConsts \/ TReset \/ TObserved \/ (Ev.op # "isolation" /\ TCall) \/ TIsolation)
           /\ l' = l + 1
ThrSpec == TInit /\ [][ThrNext]_tvars
=============================================================================
