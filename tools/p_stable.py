"""C05 — node identity is stable: nodes never move, never silently change, never alias.

Decided with the trace specifications of the other modules, on histories recorded for this purpose:
  IprMakeTrace   random histories over all generative factories with unrelated growth of every store (farms, trees,
                 scopes, regions, string arena) between two steps; after every step every node returned so far is
                 re-observed and the set of nodes that read differently must equal the set whose expected observation
                 changed (only explicit link settings and appends do that); every make_ result must be a fresh identity
  IprUnifyTrace  unified nodes re-observed later must read as when first returned; the table only grows (Stable)
  IprScopesTrace few names and types, many redeclarations: every earlier declaration is re-observed after every later one
  IprStringsTrace  every String re-read after later interning (ContentStable)
"""
import json
import os
from concurrent.futures import ThreadPoolExecutor

import vlib
import p_unify


def run(pid, tier, seed):
    q = tier == "quick"
    mk = vlib.build_harness("make", ["make.cxx"])
    un = vlib.build_harness("unify", ["unify.cxx"])
    stx = vlib.build_harness("strings", ["strings.cxx"], cfg="asan")
    tdir = vlib.trace_dir()
    os.makedirs(tdir, exist_ok=True)
    jobs = []
    for k in range(3 if q else 8):
        tp = os.path.join(tdir, "%s-%s-make-%d-%d.ndjson" % (pid, tier, seed, k))
        vlib.record_trace(mk, ["record", "--seed", seed * 50 + k, "--runs", 1, "--len", 220 if q else 600, "--stable", 1,
                               "--noise", [3, 30, 0][k % 3], "--edge", 1 if k % 3 == 2 else 0], tp, timeout=240 if q else 900)
        jobs.append(("IprMakeTrace", tp, (), lambda ev: ev.get("op") == "reset", None))
    if not q:
        mka = vlib.build_harness("make", ["make.cxx"], cfg="asan")
        tp = os.path.join(tdir, "%s-%s-make-asan.ndjson" % (pid, tier))
        vlib.record_trace(mka, ["record", "--seed", seed + 7, "--runs", 2, "--len", 400, "--stable", 1, "--noise", 20], tp, timeout=2400)
        jobs.append(("IprMakeTrace", tp, (), lambda ev: ev.get("op") == "reset", None))
    for k in range(2 if q else 4):
        tp = os.path.join(tdir, "%s-%s-unify-%d-%d.ndjson" % (pid, tier, seed, k))
        vlib.record_trace(un, ["record", "--seed", seed * 70 + k, "--runs", 4 if q else 10, "--len", 150 if q else 300,
                               "--noise", 60 if k % 2 else 0, "--edge", 0 if k % 2 else 1], tp, timeout=300 if q else 900)
        jobs.append(("IprUnifyTrace", tp, ["UInvariant"], lambda ev: ev.get("op") == "init", None))
    # scopes: after every declaration the whole scope is re-observed (name, type, master, declaration-set, position of
    # every earlier declaration): an earlier declaration may gain companions in its set, nothing else may change
    sc = vlib.build_harness("scopes", ["scopes.cxx"])
    for k in range(2 if q else 6):
        tp = os.path.join(tdir, "%s-%s-scopes-%d-%d.ndjson" % (pid, tier, seed, k))
        vlib.record_trace(sc, ["record", "--seed", seed * 90 + k, "--runs", 3 if q else 8, "--len", 100 if q else 250,
                               "--names", 5, "--types", 3], tp, timeout=300 if q else 900)
        jobs.append(("IprScopesTrace", tp, ["ScInvariant"], lambda ev: ev.get("k") == "reset", {"NNames": 5, "NT": 3, "WithSpec": "TRUE"}))
    tp = os.path.join(tdir, "%s-%s-strings-%d.ndjson" % (pid, tier, seed))
    vlib.record_trace(stx, ["record", "--seed", seed + 3, "--n", 600 if q else 3000], tp, timeout=1800)
    jobs.append(("IprStringsTrace", tp, ["StInvariant"], lambda ev: ev.get("e") == "reset", {"Known": "<- KnownWords", "NLex": 2}))

    def val(j):
        mod, tp, inv, st, consts = j
        return vlib.validate_trace_resync(mod, tp, inv, pid + mod, 4, st, consts, 3000)

    # binding A: every generative factory called twice in a row with the same operands (TLC enumerates the calls): two nodes,
    # the first unchanged
    twins = {"Use": "<- TwinFactories", "MaxLinks": 0, "Record": "TRUE", "Mode": '"twins"'}
    with ThreadPoolExecutor(max_workers=8) as ex:
        tw = ex.submit(vlib.generate_and_replay, "IprMakeMC", pid + "-twins", twins, mk, ("replay",), ["TableSane"], (), 4, 3000, "6g")
        res = list(ex.map(val, jobs))
        tw = tw.result()
    violations, samples = [], []
    if tw["summary"]["behaviours"] == 0:
        raise vlib.ModelFailure("no twin behaviour generated")
    seen_tw = set()
    for f in tw["fails"]:
        k2 = "twin:%s" % f["beh"][0]["f"]
        if k2 in seen_tw:
            continue
        seen_tw.add(k2)
        path = vlib.save_replay(pid, "%s.ndjson" % k2.replace(":", "-"), "\n".join(json.dumps(e) for e in f["beh"]) + "\n")
        violations.append((k2, "%s called twice in a row with %s: specification expects two nodes of their own (%s), the library gave %s" % (
            f["beh"][0]["f"], f["beh"][0]["a"], json.dumps(f.get("expected"))[:200], json.dumps(f.get("got"))[:200]), path))
    if tw["crash"]:
        violations.append(("twin:crash", "library crashed on a twin call", vlib.save_replay(pid, "twin-crash.ndjson", tw["crash"]["beh"])))
    states = transitions = lines = execs = rej = stable_reports = 0
    seen = set()
    for (mod, tp, _, _, _), r in zip(jobs, res):
        states += r["states"]
        transitions += r["transitions"]
        lines += r["lines"]
        execs += r["executions"]
        for (lineno, line, prefix) in r["rejections"]:
            try:
                ev = json.loads(line)
            except ValueError:
                ev = {}
            rej += 1
            key = "%s:%s" % (mod, ev.get("op", ev.get("e", ev.get("k"))))
            if key in seen:
                continue
            seen.add(key)
            path = vlib.save_replay(pid, "%s-%d.ndjson" % (mod, lineno), "\n".join(prefix[-40:]) + "\n")
            if ev.get("op") == "stable":
                text = "after an unrelated step, nodes %s read differently than before (only explicit changes may do that)" % ev.get("a")
            elif ev.get("op") in ("observe",) or ev.get("e") == "observe":
                text = "an entity returned earlier no longer reads as when it was returned: %s" % line[:300]
            else:
                text = "%s line %d rejected: %s" % (mod, lineno, line[:300])
            violations.append((key, text, path))
        for ln in open(tp):
            if '"stable"' in ln:
                stable_reports += 1
    head = open(jobs[0][1]).read().splitlines()
    samples.append({"kind": "make history with stability reports", "events": [json.loads(x) for x in head[1:4]]})
    cov = {
        "states": states + tw["tlc"].distinct, "transitions": transitions + tw["tlc"].generated,
        "traces_validated_against_impl": execs - rej + tw["summary"]["behaviours"] - tw["summary"]["failed"], "twin_calls": tw["summary"]["behaviours"],
        "evaluations": lines, "distinct_nontrivial": stable_reports,
        "rule": "histories of %d calls over all 161 generative factories with unrelated growth (identifiers, qualified pointer "
                "types, declarations, phantoms, statements, sub-regions, words of 200..3200 bytes) between two steps; after every "
                "step every node returned so far is re-read through all its accessors and the set of nodes that changed is "
                "compared with the set the specification says the client changed; unified nodes and strings are re-read at random "
                "later points. distinct_nontrivial = number of whole-history re-observations (stability reports)." % (220 if q else 600),
        "samples": samples, "exhaustive": False, "recorded_events": lines,
    }
    return {"coverage": cov, "violations": violations,
            "assumptions": ["'stays valid' (no dangling storage) is AddressSanitizer's observation: strings run under ASan in quick, "
                            "the factory histories under ASan in thorough"]}


def replay(pid, path):
    r = run(pid, "quick", 1)
    print("VIOLATION property=%s replay=%s" % (pid, path) if r["violations"] else "replay accepted")
    return 1 if r["violations"] else 0
