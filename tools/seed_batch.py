#!/usr/bin/env python3
"""tools/seed_batch.py <lanes> <list-file>: every line `<seed-id> <dir> <property> [more...]` is evaluated with tools/seed_eval.py,
<lanes> at a time; logs in /tmp/seedlog/<seed-id>.log; prints one summary line per seed when all are done."""
import json
import os
import subprocess
import sys
from concurrent.futures import ThreadPoolExecutor

V = os.path.dirname(os.path.dirname(os.path.abspath(__file__)))


def one(line):
    parts = line.split()
    os.makedirs("/tmp/seedlog", exist_ok=True)
    with open("/tmp/seedlog/%s.log" % parts[0], "w") as f:
        subprocess.run([sys.executable, os.path.join(V, "tools", "seed_eval.py")] + parts, stdout=f, stderr=subprocess.STDOUT, cwd=V)
    try:
        m = json.load(open(os.path.join(V, "seeded", parts[0], "meta.json")))
        caught = [p for p, c in m.get("checks", {}).items() if c.get("reports_violation")]
        return "%s confirmed=%s caught_by=%s exits=%s" % (parts[0], m.get("confirmed"), caught, {p: c.get("exit") for p, c in m.get("checks", {}).items()})
    except Exception as ex:
        return "%s ERROR %s" % (parts[0], ex)


lanes = int(sys.argv[1])
lines = [ln.strip() for ln in open(sys.argv[2]) if ln.strip() and not ln.startswith("#")]
with ThreadPoolExecutor(max_workers=lanes) as ex:
    for r in ex.map(one, lines):
        print(r, flush=True)
