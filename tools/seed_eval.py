#!/usr/bin/env python3
"""tools/seed_eval.py <seed-id> <dir with patch.diff demo.cxx README.md> <property> [more properties to run ...]

Confirms an independently written seeded change in a scratch worktree of /repo (outside /repo and /verif) and records it
under /verif/seeded/<seed-id>/: the patch applies, the library builds, the 17 tests pass, the demonstration passes without
and fails with the change; then runs the named checks (quick) against the changed tree and records which report it."""
import json
import os
import shutil
import subprocess
import sys
import tempfile
import time

VERIF = os.path.dirname(os.path.dirname(os.path.abspath(__file__)))


def sh(cmd, cwd=None, env=None, timeout=3600):
    r = subprocess.run(cmd, shell=True, cwd=cwd, env=env, stdout=subprocess.PIPE, stderr=subprocess.STDOUT, text=True, timeout=timeout)
    return r.returncode, r.stdout


def main():
    sid, src, props = sys.argv[1], sys.argv[2], sys.argv[3:]
    dst = os.path.join(VERIF, "seeded", sid)
    os.makedirs(dst, exist_ok=True)
    for f in ("patch.diff", "demo.cxx", "README.md"):
        if os.path.exists(os.path.join(src, f)) and os.path.abspath(src) != os.path.abspath(dst):
            shutil.copy(os.path.join(src, f), os.path.join(dst, f))
    wt = tempfile.mkdtemp(prefix="ipr-seed.", dir="/tmp")
    os.rmdir(wt)
    ran = []
    meta = {"id": sid, "breaks": props[0], "base_commit": sh("git -C /repo rev-parse --short HEAD")[1].strip()}
    try:
        rc, out = sh("git -C /repo worktree add -q --detach %s HEAD" % wt)
        assert rc == 0, out
        flags = "-std=c++23 -O1 -I%s/include" % wt
        demo = os.path.join(dst, "demo.cxx")
        extra = "-fsanitize=address" if "sanitize" in open(os.path.join(dst, "README.md")).read() else ""
        # demonstration on the unchanged tree
        cmd = "g++ %s %s %s %s/src/*.cxx -o %s/demo_base -lpthread && %s/demo_base" % (flags, extra, demo, wt, wt, wt)
        rc0, out0 = sh(cmd, timeout=1200)
        ran.append("unchanged tree: g++ demo.cxx src/*.cxx && ./demo -> exit %d" % rc0)
        rc, out = sh("git -C %s apply %s" % (wt, os.path.join(dst, "patch.diff")))
        assert rc == 0, "patch does not apply: " + out
        rc1, out1 = sh("g++ %s %s %s %s/src/*.cxx -o %s/demo_mut -lpthread && %s/demo_mut" % (flags, extra, demo, wt, wt, wt), timeout=1200)
        ran.append("changed tree: same -> exit %d" % rc1)
        rc2, out2 = sh("cmake -G Ninja -S %s -B %s/_build -DCMAKE_BUILD_TYPE=RelWithDebInfo >/dev/null && cmake --build %s/_build 2>&1 | tail -1 && "
                       "ctest --test-dir %s/_build 2>&1 | grep 'tests passed'" % (wt, wt, wt, wt), timeout=1800)
        ran.append("changed tree: cmake build + ctest -> %s" % ("pass" if rc2 == 0 and "100% tests passed" in out2 else "FAIL"))
        meta.update({"demo_exit_unchanged": rc0, "demo_exit_changed": rc1, "tests_pass_with_change": rc2 == 0 and "100% tests passed" in out2,
                     "demo_output_changed": out1[-600:]})
        meta["confirmed"] = rc0 == 0 and rc1 != 0 and meta["tests_pass_with_change"]
        checks = {}
        env = dict(os.environ)
        env["VERIF_REPO"] = wt
        for p in props:
            t0 = time.time()
            rc, out = sh("%s/bin/check %s quick" % (VERIF, p), env=env, timeout=3600)
            v = [ln for ln in out.splitlines() if ln.startswith("VIOLATION") or ln.startswith("  what:")]
            checks[p] = {"exit": rc, "reports_violation": rc == 1, "wall_s": round(time.time() - t0), "first_report": " ".join(v[:2])[:700]}
            ran.append("VERIF_REPO=<changed tree> bin/check %s quick -> exit %d" % (p, rc))
        meta["checks"] = checks
        meta["caught_by"] = [p for p, c in checks.items() if c["reports_violation"]]
    finally:
        sh("git -C /repo worktree remove --force %s" % wt)
        shutil.rmtree(wt, ignore_errors=True)
    meta["what_i_ran"] = ran
    readme = open(os.path.join(dst, "README.md")).read() if os.path.exists(os.path.join(dst, "README.md")) else ""
    meta["needs_to_manifest"] = meta.get("needs_to_manifest") or readme[:1500]
    json.dump(meta, open(os.path.join(dst, "meta.json"), "w"), indent=1)
    print(json.dumps({k: meta[k] for k in ("id", "confirmed", "caught_by")}, indent=None))
    for p, c in meta.get("checks", {}).items():
        print(p, c["exit"], c["first_report"][:300])


if __name__ == "__main__":
    main()
