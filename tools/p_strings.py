"""C03 — words are interned: one String per distinct content, content preserved (spec/IprStrings*.tla, Arena*.tla)."""
import json
import os
from concurrent.futures import ThreadPoolExecutor

import vlib
from vlib import tla_set

WORDS = ["", "696e74", "696e", "696e75", "6162", "6261", "00", "6100"]     # "", int, in, inu, ab, ba, NUL, a NUL
CONST = {"Known": "<- KnownWords", "NLex": 2}


def is_start(ev):
    return ev.get("e") == "reset"


def run(pid, tier, seed):
    exe = vlib.build_harness("strings", ["strings.cxx"])
    exe_asan = vlib.build_harness("strings", ["strings.cxx"], cfg="asan")
    q = tier == "quick"
    tdir = vlib.trace_dir()
    os.makedirs(tdir, exist_ok=True)

    def gen():
        c = dict(CONST)
        c.update({"Words": tla_set(WORDS), "Depth": 4 if q else 5, "Record": "TRUE"})
        return vlib.generate_and_replay("IprStringsMC", pid, c, exe, invariants=["StInvariant"],
                                        properties=["ContentStableMC"], workers=6, timeout=3000, heap="8g")

    def arena_scaled():
        lengths = list(range(0, 41))
        c = {"Hdr": 4, "Pad": 2, "Buf": 8, "Depth": 3 if q else 4, "Lengths": tla_set(lengths), "Directed": "FALSE",
             "Record": "FALSE"}
        cfg = os.path.join(vlib.cfg_dir(), "ArenaMC-%s-scaled-%d.cfg" % (pid, os.getpid()))
        vlib.write_cfg(cfg, spec="Spec", constants=c, invariants=["AValid"])
        r = vlib.tlc("ArenaMC", cfg, workers=4, timeout=3000, heap="8g")
        if r.violated:
            raise vlib.ModelFailure("the I-level arena model violates %s: design or transcription is wrong\n%s" % (r.violated, r.tail))
        return r

    def arena_directed():
        c = {"Hdr": 16, "Pad": 8, "Buf": 65536, "Depth": 3 if q else 4, "Lengths": "{}", "Directed": "TRUE", "Record": "TRUE"}
        r = vlib.generate_and_replay("ArenaMC", "%s-directed" % pid, c, exe, exe_args=("lengths",), invariants=["AValid"],
                                     workers=2, timeout=3000)
        p = os.path.join(tdir, "%s-arena-%s.ndjson" % (pid, tier))
        open(p, "w").write("".join(r["trace_lines"]))
        v = vlib.validate_trace_resync("IprStringsTrace", p, ["StInvariant"], pid + "a", 4, is_start, CONST, 3000)
        return r, v

    def recorded(which):
        p = os.path.join(tdir, "%s-%s-%s-%d.ndjson" % (pid, which, tier, seed))
        n = 1200 if q else 6000
        vlib.record_trace(exe if which == "plain" else exe_asan,
                          ["record", "--seed", seed if which == "plain" else seed + 17, "--n", n, "--big", 0 if q else 1], p,
                          timeout=3000)
        return p, vlib.validate_trace_resync("IprStringsTrace", p, ["StInvariant"], pid + which, 4, is_start, CONST, 3000)

    with ThreadPoolExecutor(max_workers=5) as ex:
        f1, f2, f3 = ex.submit(gen), ex.submit(arena_scaled), ex.submit(arena_directed)
        f4, f5 = ex.submit(recorded, "plain"), ex.submit(recorded, "asan")
        g, asc, (ad, adv), (tp1, tr1), (tp2, tr2) = f1.result(), f2.result(), f3.result(), f4.result(), f5.result()

    violations, samples = [], []
    s = g["summary"]
    if s["behaviours"] == 0 or not ad["trace_lines"]:
        raise vlib.ModelFailure("no behaviour generated")
    samples.append({"kind": "TLC intern behaviour over two lexicons, replayed", "behaviour": json.loads(s["sample"])})
    seen = set()
    for f in g["fails"]:
        if f["key"] in seen:
            continue
        seen.add(f["key"])
        path = vlib.save_replay(pid, "%s.ndjson" % f["key"].replace(":", "-"), "\n".join(json.dumps(e) for e in f["beh"]) + "\n")
        violations.append((f["key"], "step %s: intern(lx=%s, %s): specification expects String %s, library gave %s" % (
            f["step"], f["expected"]["lx"], f["expected"]["w"], f["expected"]["r"], json.dumps(f["got"])), path))
    if g["crash"]:
        violations.append(("crash", "library crashed replaying a behaviour", vlib.save_replay(pid, "crash.ndjson", g["crash"]["beh"])))
    states = g["tlc"].distinct + asc.distinct + ad["tlc"].distinct
    transitions = g["tlc"].generated + asc.generated + ad["tlc"].generated
    execs = rej = lines = 0
    for name, tp, tr in (("arena-directed", None, adv), ("recorded", tp1, tr1), ("recorded-asan", tp2, tr2)):
        states += tr["states"]
        transitions += tr["transitions"]
        execs += tr["executions"]
        rej += len(tr["rejections"])
        lines += tr["lines"]
        seenk = set()
        for (lineno, line, prefix) in tr["rejections"]:
            try:
                ev = json.loads(line)
            except ValueError:
                ev = {}
            key = "%s:%s" % (name, ev.get("e", "?"))
            if key in seenk:
                continue
            seenk.add(key)
            path = vlib.save_replay(pid, "%s-%d.ndjson" % (name, lineno), "\n".join(prefix[-400:]) + "\n")
            violations.append((key, "%s trace line %d is not allowed by IprStrings: %s" % (name, lineno, line[:300]), path))
    with open(tp1) as fh:
        head = fh.read().splitlines()
    samples.append({"kind": "recorded events", "events": [json.loads(x) for x in head[1:4] + head[-2:]]})
    coverage = {
        "states": states, "transitions": transitions,
        "traces_validated_against_impl": s["behaviours"] - s["failed"] + execs - rej,
        "evaluations": s["steps"] + lines, "distinct_nontrivial": s["classes"],
        "rule": "binding A: every sequence of %d intern requests over 2 lexicons and 8 words (empty, a reserved word, its prefix, "
                "a one-byte edit, two equal-length words, NUL bytes); a class is (fresh/existing/empty, lexicon, word). "
                "I-level Arena model: exhaustive with scaled constants; with the real constants (16, 8, 65536) it produces "
                "length sequences around 'exactly fills the pool' that are replayed and validated by the trace spec. "
                "binding B: all 56 reserved words and their near misses, all 256 single-byte words, embedded NULs, "
                "unterminated sources, pool roll-over and oversize lengths, random history with re-observation; once plain and "
                "once under AddressSanitizer/UBSan (a report is a terminal event the spec rejects)." % (4 if q else 5),
        "samples": samples, "exhaustive": True, "exhaustive_scope": "binding A alphabet/depth; scaled arena model",
        "arena_directed_sequences": adv["executions"], "recorded_events": lines,
        "hash_collisions": "a family of six 16-byte words with one std::hash code (constructed by inverting the block mixing of libstdc++'s "
                           "murmur; the recorder checks at run time that the codes coincide) is interned in every order of revisiting, "
                           "so bucket chains longer than one are exercised",
    }
    return {"coverage": coverage, "violations": violations,
            "assumptions": ["reserved-word list of the spec is a lower bound", "ASan observes invalidation of earlier strings"]}


def replay(pid, path):
    exe = vlib.build_harness("strings", ["strings.cxx"])
    import subprocess
    lines = [json.loads(x) for x in open(path).read().splitlines() if x.strip()]
    if lines and "e" in lines[0]:
        print("recorded prefixes are deterministic: re-run `bin/check C03 quick` (seed in the file name)")
        return 2
    r = subprocess.run([exe, "replay"], input=json.dumps(lines) + "\n", stdout=subprocess.PIPE, text=True)
    if "FAIL " in r.stdout or r.returncode != 0:
        print("VIOLATION property=%s replay=%s" % (pid, path))
        return 1
    print("replay accepted")
    return 0
