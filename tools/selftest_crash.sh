#!/bin/sh
# tools/selftest_crash.sh: every recorder is made to "die" after its last event (VERIF_FAKE_CRASH); a check whose verdict rests on a
# recorded trace must then exit 1 with a VIOLATION line -- a terminal event is a line no specification action matches -- and no check
# may exit 2 (an evaluation error inside TLC instead of a rejected line).  Evidence goes to build/ (VERIF_REPO is a symlink to /repo).
cd "$(dirname "$0")/.."
mkdir -p build && ln -sfn /repo build/repo-link
for i in 01 02 03 04 05 06 07 08 09 10 11 12 13 14 15 16 17 18 19 20; do
  VERIF_FAKE_CRASH=1 VERIF_REPO=$PWD/build/repo-link bin/check C$i quick > build/fakecrash-C$i.log 2>&1
  echo "C$i rc=$? $(grep -c '^VIOLATION' build/fakecrash-C$i.log) violations"
done
