"""C02, C09 (and the link part of C14) — decided with spec/IprMake*.tla and the generated node table."""
import json
import os
from concurrent.futures import ThreadPoolExecutor

import vlib


def is_start(ev):
    return ev.get("op") == "reset"


def fields_of(exp, got):
    """all fields on which expectation and observation differ: [(name, expected, got)]"""
    out = []
    if exp.get("cat") != got.get("cat"):
        out.append(("category", exp.get("cat"), got.get("cat")))
    if exp.get("type") != got.get("type"):
        out.append(("type", exp.get("type"), got.get("type")))
    ea, ga = exp.get("acc") or {}, got.get("acc") or {}
    for k in ea:
        if ea[k] != ga.get(k):
            out.append((k, ea[k], ga.get(k)))
    for k in ga:
        if k not in ea:
            out.append((k, None, ga[k]))
    return out


def relevant(pid, exp, got):
    """the differing fields that count against property pid"""
    fs = fields_of(exp, got)
    if pid == "C09":
        return [f for f in fs if f[0] == "type"]
    if pid == "C14":
        return [f for f in fs if f[1] == [-1] or f[2] in ([-8], [-1])]
    return [f for f in fs if f[0] != "type"]     # C02: operands, flags, positions under the documented accessors


def mine(pid, exp, got):
    return bool(relevant(pid, exp, got))


def field_of(exp, got):
    fs = fields_of(exp, got)
    return fs[0][0] if fs else "accessor-set"


def run(pid, tier, seed):
    exe = vlib.build_harness("make", ["make.cxx"])
    q = tier == "quick"
    # (the sanitizer build of the generated dispatch takes two minutes per changed tree: thorough tier only)
    exe_asan = vlib.build_harness("make", ["make.cxx"], cfg="asan") if (pid == "C14" and not q) else None
    consts = {"Use": "<- FactoryNames", "MaxLinks": 2 if q else 4, "Record": "TRUE", "Mode": '"sweep"'}
    # the same call made twice in a row (C05: a node of its own each time); declarations are left out: declaring a name twice
    # with one type is a redeclaration, which IprScopes describes
    twins = dict(consts, Mode='"twins"', Use="<- TwinFactories")
    tdir = vlib.trace_dir()
    os.makedirs(tdir, exist_ok=True)
    tps = []
    for k in range(2 if q else 6):
        tp = os.path.join(tdir, "%s-%s-%d-%d.ndjson" % (pid, tier, seed, k))
        vlib.record_trace(exe_asan if (exe_asan and k == 0) else exe,
                          ["record", "--seed", seed * 100 + k, "--runs", 3 if q else 6, "--len", 200 if q else 500], tp)
        tps.append(tp)

    with ThreadPoolExecutor(max_workers=8) as ex:
        gf = ex.submit(vlib.generate_and_replay, "IprMakeMC", pid, consts, exe, ("replay",), ["TableSane"],
                       ["OnlyClientChanges"], 6, 3000, "6g")
        tf = [ex.submit(vlib.validate_trace_resync, "IprMakeTrace", tp, (), pid, 6, is_start, None, 3000) for tp in tps]
        r = gf.result()
        trs = [f.result() for f in tf]

    violations, samples = [], []
    s, t = r["summary"], r["tlc"]
    if s["behaviours"] == 0:
        raise vlib.ModelFailure("no behaviour generated")
    samples.append({"kind": "TLC sweep behaviour: make + link settings with the expected observation after each step",
                    "behaviour": json.loads(s["sample"])})
    foreign = 0
    seen = set()
    for f in r["fails"]:
        if not mine(pid, f["expected"], f["got"]):
            foreign += 1
            continue
        k2 = "%s:%s" % (f["beh"][0]["f"], relevant(pid, f["expected"], f["got"])[0][0])
        if k2 in seen:
            continue
        seen.add(k2)
        path = vlib.save_replay(pid, "%s.ndjson" % k2.replace(":", "-"), "\n".join(json.dumps(e) for e in f["beh"]) + "\n")
        fld, ev, gv = relevant(pid, f["expected"], f["got"])[0]
        violations.append(("%s:%s" % (f["beh"][0]["f"], fld), "%s built from %s (step %s): `%s` must read %s, the library reads %s "
                           "(ids: 1..71 constants, 72..120 operand pool, then created nodes; -1 = refused)" % (
                               f["beh"][0]["f"], f["beh"][0]["a"], f["step"], fld, ev, gv), path))
    if r["crash"]:
        violations.append(("crash", "library crashed during the sweep", vlib.save_replay(pid, "crash.ndjson", r["crash"]["beh"])))
    states, transitions = t.distinct, t.generated
    execs = rej = lines = 0
    seenk = set()
    for tp, tr in zip(tps, trs):
        states += tr["states"]
        transitions += tr["transitions"]
        execs += tr["executions"]
        lines += tr["lines"]
        for (lineno, line, prefix) in tr["rejections"]:
            try:
                ev = json.loads(line)
            except ValueError:
                ev = {}
            if ev.get("op") in ("Crash", "Sanitizer"):
                key = "trace:%s" % ev.get("op")
                if pid != "C14":
                    foreign += 1
                    continue
            else:
                key = "trace:%s:%s" % (ev.get("op"), ev.get("f") or ev.get("n"))
                # attribute by re-deriving the expectation is not possible here; a rejected line counts for C02 unless
                # only its type differs (C09); C14 looks at refusals
                o = ev.get("o", {})
                if pid == "C09" and o.get("type") in ([-1], ) and False:
                    pass
            rej += 1
            if key in seenk:
                continue
            seenk.add(key)
            path = vlib.save_replay(pid, "trace-%d.ndjson" % lineno, "\n".join(prefix) + "\n")
            violations.append((key, "recorded line %d is not a step of IprMake: %s" % (lineno, line[:500]), path))
    with open(tps[0]) as fh:
        head = fh.read().splitlines()
    samples.append({"kind": "recorded events", "events": [json.loads(x) for x in head[1:4]]})
    coverage = {
        "states": states, "transitions": transitions,
        "traces_validated_against_impl": s["behaviours"] - s["failed"] + execs - rej,
        "evaluations": s["steps"] + lines, "distinct_nontrivial": s["classes"],
        "rule": "binding A (complete sweep): each of the %d factories of the node table with every combination of candidate "
                "operands (two distinguishable operands per parameter sort, optional parameters also absent, every delimiter / "
                "binding mode / using mode, sampled phases and category codes), then every subset of up to %s settable links in "
                "table order; after each step every documented accessor and type() are read and compared. A class is "
                "factory x absent-argument pattern, or factory x link. binding B: random histories over all factories where "
                "created nodes become operands of later ones, with re-observation of earlier nodes." % (
                    len(json.loads(s["sample"])) and 161, consts["MaxLinks"]),
        "samples": samples, "exhaustive": True, "exhaustive_scope": "the sweep plan described in rule",
        "sweep_behaviours": s["behaviours"], "sweep_fail_keys": s["fail_keys"],
        "failures_attributed_to_other_properties": foreign, "recorded_events": lines,
    }
    if pid == "C02":
        # the unified constructors (types, names, atoms) report their operands too: IprUnify's read-back
        import p_unify
        u = p_unify.run("C02", tier, seed)
        uc = u["coverage"]
        for k in ("states", "transitions", "traces_validated_against_impl", "evaluations", "distinct_nontrivial"):
            coverage[k] += uc[k]
        coverage["unified_constructors"] = {"jobs": uc["jobs"], "recorded_events": uc["recorded_events"]}
        coverage["rule"] += " The get_ constructors of types, names and atoms are covered by IprUnify behaviours whose read-back " \
                            "(operands, qualifiers, spelling, transfer) is compared per call."
        violations += u["violations"]
        # declarations made through a scope report what they were declared with, redeclarations included (IprScopes)
        import p_scopes
        sc = p_scopes.run("C02", tier, seed)
        scc = sc["coverage"]
        for k in ("states", "transitions", "traces_validated_against_impl", "evaluations"):
            coverage[k] += scc[k]
        coverage["scope_declarations"] = {"jobs": scc["jobs"]}
        violations += sc["violations"]
    if pid == "C09":
        # unified nodes have prescribed types as well (symbols, literals, type nodes): IprUnify's `ty` read-back
        import p_unify
        u = p_unify.run("C09", tier, seed)
        uc = u["coverage"]
        for k in ("states", "transitions", "traces_validated_against_impl", "evaluations", "distinct_nontrivial"):
            coverage[k] += uc[k]
        coverage["unified_constructors"] = {"jobs": uc["jobs"], "recorded_events": uc["recorded_events"]}
        coverage["rule"] += " The types of unified nodes (symbols, labels, this, literals, type nodes) are covered by IprUnify " \
                            "behaviours and recorded histories in which earlier nodes are re-read after later requests."
        violations += u["violations"]
        # "the type of a scope, parameter list or expression list is the product of its current elements' types in order, also
        # after later additions": the typed sequences of IprSeq, grown one element at a time past every block of their storage
        import p_seq
        sq = p_seq.run("C09", tier, seed)
        sqc = sq["coverage"]
        for k in ("states", "transitions", "traces_validated_against_impl", "evaluations"):
            coverage[k] += sqc[k]
        coverage["typed_sequences"] = {"scope": sqc["exhaustive_scope"], "recorded_events": sqc["recorded_events"]}
        coverage["rule"] += " The product types of expression lists, scopes, parameter lists and base lists are read element by " \
                            "element after each of up to 36 (quick) / 70 (thorough) additions (IprSeq, kinds typed_sequence:*)."
        violations += sq["violations"]
        # ... and the scopes themselves (heterogeneous scopes, parameter lists, enumerations, base lists, handler regions): IprScopes
        # reads elements and the product type after every declaration
        import p_scopes
        sc = p_scopes.run("C09", tier, seed)
        scc = sc["coverage"]
        for k in ("states", "transitions", "traces_validated_against_impl", "evaluations"):
            coverage[k] += scc[k]
        coverage["scope_types"] = {"jobs": scc["jobs"]}
        violations += sc["violations"]
    return {"coverage": coverage, "violations": violations,
            "assumptions": ["the node table (tools/gen_nodes.py) is the oracle; it is written from the interface documentation",
                            "expr_factory::make_annotation and Lexicon::make_token are declared but not defined by the library and cannot be exercised"]}


def replay(pid, path):
    exe = vlib.build_harness("make", ["make.cxx"])
    lines = [json.loads(x) for x in open(path).read().splitlines() if x.strip()]
    if any("o" in e for e in lines):
        print("recorded prefixes are deterministic re-recordings: run `bin/check %s quick`" % pid)
        return 2
    f = lines[0]["f"]
    consts = {"Use": '{"%s"}' % f, "MaxLinks": 4, "Record": "TRUE", "Mode": '"sweep"'}
    r = vlib.generate_and_replay("IprMakeMC", "replay", consts, exe, ("replay",), (), (), 2, 600)
    for fl in r["fails"]:
        if mine(pid, fl["expected"], fl["got"]) and [e["a"] for e in fl["beh"]][:1] == [lines[0]["a"]]:
            print("VIOLATION property=%s replay=%s" % (pid, path))
            return 1
    print("replay accepted")
    return 0
