"""C07 — scopes, overload sets and declaration sets are mutually consistent (spec/IprScopes*.tla)."""
import json
import os
from concurrent.futures import ThreadPoolExecutor

import vlib
from vlib import tla_set

NN, NT = 3, 2


def is_start(ev):
    return ev.get("k") == "reset"


def jobs(tier, pid="C07"):
    q = tier == "quick"
    base = {"NNames": NN, "NT": NT, "Record": "TRUE"}

    def job(name, depth, scopes, kinds, names=(1, 2), types=(1, 2)):
        c = dict(base)
        c.update({"Depth": depth, "UseScopes": tla_set(scopes), "UseKinds": tla_set(kinds), "UseNames": tla_set(names),
                  "UseTypes": tla_set(types)})
        return (name, c)
    if pid == "C02":
        # what a declaration reports beyond its place in the scope: name, type and, for an alias, the aliasee it was declared
        # with -- on first declarations and on redeclarations
        return [job("kinds", 3 if q else 4, [2], ["var", "field", "bitfield", "typedecl", "alias", "ptemplate", "stemplate"]),
                job("aliases", 4 if q else 5, [1, 2], ["alias", "typedecl"], names=(1, 2), types=(1, 2)),
                # position() of parameters, enumerators, bases and exception parameters (C02 names position() among the read-backs)
                job("positions", 4 if q else 5, [3, 4, 5, 6], ["param", "enumerator", "base", "ehparam"], names=(1, 2, 3), types=(1, 2))]
    if pid == "C09":
        # the type of a scope is the product of its current elements' types, after every addition: every kind of scope
        return [job("var-fun", 4 if q else 5, [1], ["var", "fundecl"]),
                # a declaration has the type it was declared with; an alias that of its initializer (a literal, a class)
                job("aliases", 3 if q else 4, [1, 2], ["alias", "typedecl", "var"], names=(1, 2), types=(1, 2)),
                job("homogeneous", 4 if q else 5, [3, 4, 5, 6], ["param", "enumerator", "base", "ehparam"], names=(1, 2, 3), types=(1, 2))]
    return [
        job("var-fun", 5, [1], ["var", "fundecl"]),
        job("kinds", 4, [2], ["var", "field", "bitfield", "typedecl", "alias", "ptemplate", "stemplate"],
            names=(1, 2), types=(1, 2)),
        job("two-scopes", 4, [1, 2], ["var", "typedecl", "fundecl"], names=(1,), types=(1, 2)),
        job("homogeneous", 5, [3, 4, 5, 6], ["param", "enumerator", "base", "ehparam"], names=(1, 2, 3), types=(1, 2)),
    ]


def run(pid, tier, seed):
    exe = vlib.build_harness("scopes", ["scopes.cxx"])
    q = tier == "quick"
    tdir = vlib.trace_dir()
    os.makedirs(tdir, exist_ok=True)
    tp = os.path.join(tdir, "%s-%s-%d.ndjson" % (pid, tier, seed))
    rn, rt = 12, 6
    vlib.record_trace(exe, ["record", "--seed", seed, "--runs", 4 if q else 16, "--len", 100 if q else 220,
                            "--names", rn, "--types", rt], tp)

    # many names in one scope entered in an order unrelated to their creation (the name-keyed lookup tree of a scope rebalances
    # many times), and many types under few names (the type-keyed chain of an overload set does)
    wide = []
    for tag, wn, wt in ((("names", 40, 2), ("types", 3, 10)) if pid not in ("C02", "C09") else ()):
        wp = os.path.join(tdir, "%s-%s-%d-%s.ndjson" % (pid, tier, seed, tag))
        vlib.record_trace(exe, ["record", "--seed", seed + 17, "--runs", 3 if q else 10, "--len", 170 if q else 300,
                                "--names", wn, "--types", wt], wp, timeout=300)
        wide.append((wp, wn, wt))

    def gen(j):
        return vlib.generate_and_replay("IprScopesMC", "%s-%s" % (pid, j[0]), j[1], exe, ("replay", str(NN), str(NT)),
                                        ["ScInvariant"], ["AppendOnlyMC"], 4, 3000, "6g")

    with ThreadPoolExecutor(max_workers=6) as ex:
        gf = [ex.submit(gen, j) for j in jobs(tier, pid)]
        tf = ex.submit(vlib.validate_trace_resync, "IprScopesTrace", tp, ["ScInvariant"], pid, 4, is_start,
                       {"NNames": rn, "NT": rt, "WithSpec": "FALSE"}, 3000)
        wf = [ex.submit(vlib.validate_trace_resync, "IprScopesTrace", wp, ["ScInvariant"], "%s-%d" % (pid, wn), 4, is_start,
                        {"NNames": wn, "NT": wt, "WithSpec": "FALSE"}, 3000) for (wp, wn, wt) in wide]
        gr = [f.result() for f in gf]
        tr = tf.result()
        for f in wf:
            w = f.result()
            for k in ("states", "transitions", "executions", "lines"):
                tr[k] += w[k]
            tr["rejections"] += w["rejections"]

    violations, samples, per_job = [], [], {}
    states = transitions = beh = steps = failed = 0
    classes = 0
    foreign = 0
    seen = set()
    for r in gr:
        t, s = r["tlc"], r["summary"]
        states += t.distinct
        transitions += t.generated
        beh += s["behaviours"]
        steps += s["steps"]
        failed += s["failed"]
        classes += s["classes"]
        per_job[r["name"]] = {k: s[k] for k in ("behaviours", "failed", "fail_keys", "classes")}
        if s["behaviours"] == 0:
            raise vlib.ModelFailure("no behaviour for %s" % r["name"])
        if len(samples) < 2:
            b = json.loads(s["sample"])
            samples.append({"kind": "TLC behaviour (%s): declarations with the predicted observation of the scope" % r["name"],
                            "behaviour": [b[0], {"ev": b[-1]["ev"], "o": {k: b[-1]["o"][k] for k in ("elements", "types", "decls")}}]})
        for f in r["fails"]:
            part = f["key"].split(":")[1]
            # read-back of what a declaration was given (name, type, aliasee) is C02's; its place in the scope is C07's
            if pid == "C09":
                skip = part not in ("types", "elements", "t")
            elif pid == "C02":
                skip = part not in ("init", "n", "t", "spec", "pos")
            else:
                skip = part in ("init", "spec")
            if skip:
                foreign += 1
                continue
            if f["key"] in seen:
                continue
            seen.add(f["key"])
            path = vlib.save_replay(pid, "%s.ndjson" % f["key"].replace(":", "-"), "\n".join(json.dumps(e) for e in f["beh"]) + "\n")
            exp, got = f["expected"], f["got"]
            if part in ("elements", "types", "lookup", "select"):
                detail = "%s: expected %s, library %s" % (part, json.dumps(exp.get(part)), json.dumps(got.get(part)))
            else:
                detail = "declarations: expected %s, library %s" % (json.dumps(exp.get("decls")), json.dumps(got.get("decls")))
            violations.append((f["key"], "after %s (step %s) the scope disagrees with IprScopes on %s" % (
                json.dumps(f["beh"][-1]), f["step"], detail[:700]), path))
        if r["crash"]:
            violations.append(("crash", "library crashed replaying a behaviour",
                               vlib.save_replay(pid, "crash-%s.ndjson" % r["name"], r["crash"]["beh"])))
    seenk = set()
    for (lineno, line, prefix) in ([] if pid in ("C02", "C09") else tr["rejections"]):
        try:
            ev = json.loads(line)
        except ValueError:
            ev = {}
        key = "trace:%s" % ev.get("k", ev.get("e", "?"))
        if key in seenk:
            continue
        seenk.add(key)
        path = vlib.save_replay(pid, "trace-%d.ndjson" % lineno, "\n".join(prefix) + "\n")
        violations.append((key, "recorded line %d is not a step of IprScopes: %s" % (lineno, line[:500]), path))
    with open(tp) as fh:
        head = fh.read().splitlines()
    samples.append({"kind": "recorded event", "event": json.loads(head[min(5, len(head) - 1)])})
    coverage = {
        "states": states + tr["states"], "transitions": transitions + tr["transitions"],
        "traces_validated_against_impl": beh - failed + tr["executions"] - len(tr["rejections"]),
        "evaluations": steps + tr["lines"], "distinct_nontrivial": classes,
        "rule": "binding A: all admissible declaration sequences of each job (kinds, names, types, scopes as listed) up to its "
                "depth; after every declaration the whole scope is observed (elements, product type, name/type/master/"
                "declaration-set/position of every declaration, lookup of every name incl. undeclared ones, selection by every "
                "type) and compared with the derived operators of the spec. A class is kind x (first/redeclaration) x "
                "(name alone/overloaded). binding B: random histories over %d names, %d types, two heterogeneous scopes, a "
                "parameter list, an enumeration and a base list, validated by the trace spec; also over 40 names x 2 types and over "
                "3 names x 10 types (x 3 declaration families) (lookup structures with many keys entered in an order unrelated to their creation)." % (rn, rt),
        "samples": samples, "exhaustive": True, "exhaustive_scope": "per job alphabet and depth", "jobs": per_job,
        "recorded_events": tr["lines"], "failures_attributed_to_other_properties": foreign,
    }
    return {"coverage": coverage, "violations": violations,
            "assumptions": ["each (name,type) pair is used by one declaration kind; names in homogeneous scopes are distinct"]}


def replay(pid, path):
    exe = vlib.build_harness("scopes", ["scopes.cxx"])
    lines = [json.loads(x) for x in open(path).read().splitlines() if x.strip()]
    if lines and "o" in lines[0] or any(e.get("k") == "reset" for e in lines):
        print("recorded prefixes are deterministic re-recordings: run `bin/check C07 quick`")
        return 2
    # re-generate expectations for exactly this sequence: run the MC restricted to the sequence's alphabet is
    # not needed; the sequence is short, so ask TLC for all behaviours over its alphabet and depth and filter.
    kinds = sorted({e["k"] for e in lines})
    scopes = sorted({e["s"] for e in lines})
    c = {"NNames": NN, "NT": NT, "Record": "TRUE", "Depth": len(lines), "UseScopes": tla_set(scopes),
         "UseKinds": tla_set(kinds), "UseNames": tla_set(sorted({e["n"] for e in lines if e["n"] <= NN}) or [1]),
         "UseTypes": tla_set([1, 2])}
    r = vlib.generate_and_replay("IprScopesMC", "replay", c, exe, ("replay", str(NN), str(NT)), ["ScInvariant"], (), 2, 600)
    want = [(e["s"], e["k"], e["n"], e["t"]) for e in lines]
    for f in r["fails"]:
        got = [(e["s"], e["k"], e["n"], e["t"]) for e in f["beh"]]
        if got == want[:len(got)]:
            print("VIOLATION property=%s replay=%s" % (pid, path))
            return 1
    if r["summary"]["failed"] and len(r["fails"]) >= 20:
        print("VIOLATION property=%s replay=%s" % (pid, path))
        return 1
    print("replay accepted")
    return 0
