"""Extra conformance (not a listed property): the visitor families of declarator forms, attributes and captures, spec/IprForms*.tla."""
import json
import os

import vlib


def run(name, tier, seed):
    exe = vlib.build_harness("forms", ["forms.cxx"])
    tp = os.path.join(vlib.trace_dir(), "%s-%s.ndjson" % (name, tier))
    vlib.record_trace(exe, ["sweep"], tp)
    v = vlib.validate_trace_resync("IprFormsTrace", tp, (), name, 50, lambda ev: False, None, 600)
    lines = [json.loads(x) for x in open(tp) if x.strip()]
    deviations = []
    for (lineno, line, prefix) in v["rejections"]:
        ev = json.loads(line) if line.startswith("{") else {}
        key = "%s:%s" % (ev.get("class"), ev.get("family"))
        deviations.append((key, "%s (from %s) visited as %s ran through %s" % (ev.get("class"), ev.get("how"), ev.get("family"), ev.get("hooks")),
                           vlib.save_replay(name, "form-%d.json" % lineno, line + "\n")))
    pairs = {(e.get("class"), e.get("family")) for e in lines if e.get("e") == "form"}
    if len(pairs) < 37:
        raise vlib.ModelFailure("the sweep covered %d (class, family) pairs, the table has 37" % len(pairs))
    coverage = {"states": v["states"], "transitions": v["transitions"], "traces_validated_against_impl": len(lines) - len(v["rejections"]),
                "evaluations": len(lines), "distinct_nontrivial": len(pairs),
                "rule": "one object of every declarator-form, attribute and capture class through every factory overload, visited with a "
                        "recording visitor of every family it belongs to; IprFormsTrace accepts a line only if the hooks are exactly the "
                        "hook of the class, once", "samples": [{"kind": "recorded event", "event": lines[0]}]}
    return {"coverage": coverage, "deviations": deviations}
