"""Extra (not a listed property): spec/Ipr.tla, the composition of the families, model-checked (joint invariant, one family moves per
call, everything only grows).  No binding of its own: every family is bound by its own check."""
import os

import vlib


def run(name, tier, seed):
    q = tier == "quick"
    cfg = os.path.join(vlib.cfg_dir(), "Ipr-%s-%d.cfg" % (name, os.getpid()))
    vlib.write_cfg(cfg, spec="Spec", constants={"NNames": 2, "NT": 1, "NParam": 2, "NValue": 1, "NDecl": 1, "NIdent": 1,
                                                "MaxSteps": 5 if q else 7},
                   invariants=["Invariant"], properties=["OneFamilyMoves", "Monotone"])
    r = vlib.tlc("Ipr", cfg, workers=6, timeout=3000, heap="8g")
    deviations = []
    if r.violated:
        deviations.append(("model", "Ipr.tla violates %s:\n%s" % (r.violated, r.tail[-1500:]), cfg))
    coverage = {"states": r.distinct, "transitions": r.generated, "traces_validated_against_impl": 0, "evaluations": r.distinct,
                "distinct_nontrivial": 6,
                "rule": "TLC on the composition of six families with a small alphabet each, %d calls deep: the conjunction of the "
                        "families' invariants, at most one family moves per call, nodes/entities/declarations/units only grow" % (5 if q else 7)}
    return {"coverage": coverage, "deviations": deviations}
