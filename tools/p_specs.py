"""C10 — specifier and qualifier sets are a Boolean algebra with exact decomposition (spec/IprSpecifiers*.tla)."""
import json
import os
from concurrent.futures import ThreadPoolExecutor

import vlib

SPEC = ["=0", "export", "public", "protected", "private", "consteval", "constexpr", "constinit", "explicit", "extern",
        "friend", "inline", "mutable", "register", "static", "thread_local", "typedef", "virtual"]
QUAL = ["const", "volatile", "restrict"]


def tset(names):
    return "{" + ", ".join('"%s"' % n for n in names) + "}"


def tsets(sets):
    return "{" + ", ".join(tset(s) for s in sets) + "}"


def run(pid, tier, seed):
    exe = vlib.build_harness("specs", ["specs.cxx"])
    q = tier == "quick"
    probes = [[]] + [[n] for n in SPEC] + [SPEC[:5], SPEC[3:12], SPEC[9:], SPEC]
    qprobes = [[], ["const"], ["volatile"], ["restrict"], ["const", "volatile"], ["const", "restrict"],
               ["volatile", "restrict"], QUAL]
    jobs = []
    if q:
        jobs.append(("spec-lo", {"Family": '"spec"', "Active": tset(SPEC[:10]), "Probes": tsets(probes), "Record": "TRUE"}))
        jobs.append(("spec-hi", {"Family": '"spec"', "Active": tset(SPEC[8:]), "Probes": tsets(probes), "Record": "TRUE"}))
    else:
        jobs.append(("spec-all", {"Family": '"spec"', "Active": tset(SPEC), "Probes": tsets(probes), "Record": "TRUE"}))
    jobs.append(("qual", {"Family": '"qual"', "Active": tset(QUAL), "Probes": tsets(qprobes), "Record": "TRUE"}))

    def gen(j):
        return vlib.generate_and_replay("IprSpecifiersMC", "%s-%s" % (pid, j[0]), j[1], exe, invariants=["Laws"],
                                        workers=8 if not q else 3, timeout=3000, heap="8g")

    tdir = vlib.trace_dir()
    os.makedirs(tdir, exist_ok=True)
    tp = os.path.join(tdir, "%s-%s-%d.ndjson" % (pid, tier, seed))
    vlib.record_trace(exe, ["record", "--seed", seed, "--len", 400 if q else 1500, "--runs", 3 if q else 8], tp)

    with ThreadPoolExecutor(max_workers=5) as ex:
        gf = [ex.submit(gen, j) for j in jobs]
        tf = ex.submit(vlib.validate_trace_resync, "IprSpecifiersTrace", tp, (), pid, 4,
                       lambda ev: ev.get("e") == "reset")
        gr = [f.result() for f in gf]
        tr = tf.result()

    violations, samples, per_job = [], [], {}
    states = transitions = subsets = evals = failed = classes = 0
    for r in gr:
        t, s = r["tlc"], r["summary"]
        states += t.distinct
        transitions += t.generated
        subsets += s["behaviours"]
        evals += s["steps"]
        failed += s["failed"]
        classes += s["classes"]
        per_job[r["name"]] = {k: s[k] for k in ("behaviours", "failed", "fail_keys")}
        if s["behaviours"] == 0:
            raise vlib.ModelFailure("no state emitted for %s" % r["name"])
        if len(samples) < 2:
            d = json.loads(s["sample"])
            d["probes"] = dict(list(d["probes"].items())[:2])
            samples.append({"kind": "subset and required answers emitted by TLC (%s)" % r["name"], "case": d})
        seen = set()
        for f in r["fails"]:
            key = "%s:%s" % (f["family"], f["key"])
            if key in seen:
                continue
            seen.add(key)
            path = vlib.save_replay(pid, "%s.json" % key.replace(":", "-"), json.dumps(f) + "\n")
            violations.append((key, "%s set %s: the library's answer for `%s` differs from the specification" % (
                f["family"], f["x"], f["key"]), path))
        if r["crash"]:
            path = vlib.save_replay(pid, "crash.json", r["crash"]["beh"])
            violations.append(("crash", "the library crashed evaluating a subset", path))
    states += tr["states"]
    transitions += tr["transitions"]
    seen = set()
    for (lineno, line, prefix) in tr["rejections"]:
        ev = json.loads(line) if line else {}
        key = "trace:%s:%s" % (ev.get("e"), ev.get("fam", ev.get("name", "")))
        if key in seen:
            continue
        seen.add(key)
        path = vlib.save_replay(pid, "trace-%d.ndjson" % lineno, "\n".join(prefix) + "\n")
        violations.append((key, "recorded line %d is not a step of IprSpecifiers: %s" % (lineno, line[:300]), path))
    with open(tp) as fh:
        lines = fh.read().splitlines()
    samples.append({"kind": "recorded register operations", "events": [json.loads(x) for x in lines[21:25]]})
    coverage = {
        "states": states, "transitions": transitions,
        "traces_validated_against_impl": subsets - failed + tr["executions"] - len(tr["rejections"]),
        "evaluations": evals + tr["lines"], "distinct_nontrivial": classes,
        "rule": "binding A: TLC reaches every subset of the active basis (quick: two overlapping 10-name halves of the 18 "
                "specifiers and all 8 qualifier sets; thorough: all 2^18) and prints, per subset, the decomposition and the "
                "results of | & ^ implies against %d probe sets; the replayer evaluates the same on the library. "
                "distinct_nontrivial = distinct subsets replayed. binding B: random register machines validated by the "
                "trace spec, including all 20 named accessors and refused names." % len(probes),
        "samples": samples, "exhaustive": True,
        "exhaustive_scope": "all subsets of each job's active basis; all qualifier subsets and pairs", "jobs": per_job,
        "recorded_events": tr["lines"],
    }
    return {"coverage": coverage, "violations": violations,
            "assumptions": ["basis names are those documented in <ipr/interface> (Lexicon accessors) plus constinit"]}


def replay(pid, path):
    exe = vlib.build_harness("specs", ["specs.cxx"])
    if path.endswith(".ndjson"):
        print("trace prefixes of C10 are deterministic re-recordings: run `bin/check C10 quick`")
        return 2
    f = json.load(open(path))
    import subprocess
    # re-evaluate just this subset against all singleton probes
    consts = {"Family": '"%s"' % f["family"], "Active": tset(f["x"] or ["const" if f["family"] == "qual" else "static"]),
              "Probes": tsets([[]] + [[n] for n in (SPEC if f["family"] == "spec" else QUAL)]), "Record": "TRUE"}
    r = vlib.generate_and_replay("IprSpecifiersMC", "replay", consts, exe, invariants=["Laws"], workers=1)
    if r["summary"]["failed"]:
        print("VIOLATION property=%s replay=%s" % (pid, path))
        return 1
    print("replay accepted")
    return 0
