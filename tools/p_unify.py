"""C01, C04, C11, C13 — decided with spec/IprUnify.tla.

Binding A: IprUnifyMC.tla enumerates every behaviour of the chosen alphabet up to a depth (after a fixed prelude);
           harness/unify.cxx replays each behaviour into a fresh Lexicon and compares outcome, identity and
           observation of every call with what the specification predicts.
Binding B: harness/unify.cxx records seeded random histories (with unrelated insertions in between so that the
           lookup trees rebalance); IprUnifyTrace.tla must accept every line, with all invariants evaluated in
           every state.
"""
import json
import os
import re
from concurrent.futures import ThreadPoolExecutor

import vlib
from vlib import tla_set

TYPE_OPS = ["get_pointer", "get_reference", "get_rvalue_reference", "get_array", "get_qualified", "get_function",
            "get_function_x", "get_function_e", "get_function_ex", "get_product", "get_sum", "get_product_ref", "get_sum_ref", "get_product_of",
            "get_sum_of", "get_forall", "get_ptr_to_member", "get_tor", "get_as_type", "get_as_type_x",
            "get_as_type_id", "get_transfer_from_linkage", "get_transfer_from_convention", "get_transfer"]
NAME_OPS = ["get_identifier", "get_operator", "get_suffix", "get_conversion", "get_ctor_name", "get_dtor_name",
            "get_guide_name", "get_template_id", "get_logogram", "get_symbol", "get_label", "get_this",
            "get_literal", "make_literal", "get_linkage", "get_calling_convention", "get_identifier_s", "get_operator_s",
            "get_linkage_s", "get_literal_s", "make_literal_s", "eq_linkage", "eq_callconv",
            "eq_transfer", "eq_logogram"]
BUILTIN_WORDS = ["void", "bool", "char", "signed char", "unsigned char", "wchar_t", "char8_t", "char16_t",
                 "char32_t", "short", "unsigned short", "int", "unsigned int", "long", "unsigned long", "long long",
                 "unsigned long long", "float", "double", "long double", "...", "typename", "class", "union",
                 "enum", "namespace"]


def mine(pid, fail):
    """Does this replay failure count against property pid?"""
    op = fail["expected"]["op"] if "expected" in fail else "init"
    key = fail["key"]
    expected_cls = key.split(":")[-1].split("/")[0] if ":" in key else ""
    if pid == "C02":
        # read-back of the operands of a unified node (types, names, atoms): whatever the identity, what the node
        # reports must be what the specification says the request was built from
        return "expected" in fail and "got" in fail and fail["expected"].get("o") != fail["got"].get("o") \
            and fail["got"].get("out") == "ok"
    if pid == "C09":
        # the type a unified node reports is the one its kind prescribes (given at construction, or fixed)
        return "expected" in fail and "got" in fail and fail["got"].get("out") == "ok" \
            and (fail["expected"].get("o") or {}).get("ty") != (fail["got"].get("o") or {}).get("ty")
    if pid == "C13":
        return op == "init" or expected_cls == "const"
    if op == "init":
        return False
    if pid == "C11":
        return op == "get_qualified"
    if pid == "C01":
        if op == "get_qualified" and fail.get("nestedq"):
            return False
        return op in TYPE_OPS
    if pid == "C04":
        return op in NAME_OPS
    return False


def base_consts(ops, depth, types=(12, 3), exprs=(27,), ids=(49,), words=("foo",), quals=(1, 2), maxseq=2,
                prelude="NoPrelude", record=True):
    return {
        "OpSet": tla_set(ops), "TypeSeeds": tla_set(types), "ExprSeeds": tla_set(exprs), "IdSeeds": tla_set(ids),
        "WordSet": tla_set(words), "QualSet": tla_set(quals), "MaxSeq": maxseq, "Depth": depth,
        "Record": "TRUE" if record else "FALSE", "Prelude": "<- " + prelude,
    }


def jobs_for(pid, tier):
    q = tier == "quick"
    J = []
    if pid == "C01":
        J.append(("core", base_consts(["get_pointer", "get_reference", "get_qualified", "get_array", "get_product",
                                       "get_function", "get_function_e", "get_product_of"],
                                      3 if q else 4, types=(12, 3) if q else (12,), maxseq=2 if q else 1,
                                      quals=(1, 2))))
        J.append(("xfer", base_consts(["get_function", "get_function_x", "get_function_e", "get_function_ex",
                                       "get_as_type", "get_as_type_x", "get_transfer", "get_transfer_from_linkage",
                                       "get_transfer_from_convention"],
                                      2 if q else 3, types=(12,), exprs=(27, 28), prelude="PreludeXfer")))
        J.append(("compound", base_consts(["get_forall", "get_ptr_to_member", "get_tor", "get_sum", "get_sum_of",
                                           "get_product_of", "get_rvalue_reference", "get_as_type_id",
                                           "get_product"],
                                          2 if q else 3, types=(12,), ids=(49,), maxseq=1,
                                          prelude="PreludeCompound")))
        J.append(("sequences", base_consts(["get_product", "get_product_ref", "get_sum", "get_sum_ref", "get_product_of", "get_sum_of",
                                            "get_function"],
                                           3, types=(12, 3) if q else (12, 3, 2), maxseq=2)))
        J.append(("pairs", base_consts(["get_pointer", "get_reference", "get_rvalue_reference", "get_ptr_to_member",
                                        "get_array", "get_qualified"],
                                       3 if q else 4, types=(12,), exprs=(27,), quals=(1, 3), prelude="PreludeClass")))
    elif pid == "C04":
        J.append(("names", base_consts(["get_identifier", "get_operator", "get_suffix", "get_conversion",
                                        "get_ctor_name", "get_dtor_name", "get_logogram"],
                                       3 if q else 4, types=(12,) if q else (12, 3), ids=(49,),
                                       words=("foo", "int", "") if q else ("foo", "int", "+", ""))))
        J.append(("atoms", base_consts(["get_symbol", "get_label", "get_this", "get_literal", "make_literal",
                                        "get_template_id", "get_identifier"],
                                       3 if q else 4, types=(12,), ids=(49, 67), words=("foo", "default"),
                                       prelude="PreludeAtoms")))
        J.append(("overloads", base_consts(["get_identifier", "get_identifier_s", "get_operator", "get_operator_s", "get_linkage",
                                            "get_linkage_s", "get_literal", "get_literal_s", "make_literal_s", "eq_linkage"],
                                           3, types=(12,), words=("C", "int", "x") if q else ("C", "C++", "int", "x"))))
        J.append(("values", base_consts(["get_linkage", "get_calling_convention", "get_transfer", "eq_linkage",
                                         "eq_callconv", "eq_transfer", "get_logogram", "eq_logogram"],
                                        3, words=("C", "Java", "") if q else ("C", "C++", "Java", ""), types=())))
    elif pid == "C02":
        c1 = dict(jobs_for("C01", tier))
        c4 = dict(jobs_for("C04", tier))
        c11 = dict(jobs_for("C11", tier))
        J += [("xfer", c1["xfer"]), ("compound", c1["compound"]), ("sequences", c1["sequences"]), ("names", c4["names"]), ("atoms", c4["atoms"]),
              ("splits", c11["splits"])]          # qualifier merging is the documented normal form: what is read back is the union
    elif pid == "C09":
        c1 = dict(jobs_for("C01", tier))
        c4 = dict(jobs_for("C04", tier))
        J += [("xfer", c1["xfer"]), ("compound", c1["compound"]), ("atoms", c4["atoms"]),
              # atoms whose type is itself a compound or qualified type
              ("typed-atoms", base_consts(["get_qualified", "get_pointer", "get_literal", "get_symbol", "get_this"], 3, types=(12,),
                                          ids=(49,), words=("foo",), quals=(1,)))]
    elif pid == "C11":
        J.append(("splits", base_consts(["get_qualified"], 3 if q else 4, types=(12,), quals=(0, 1, 2, 3, 4, 5, 6, 7),
                                        prelude="PreludeClass")))
        J.append(("interleaved", base_consts(["get_qualified", "get_pointer", "get_reference"], 3 if q else 4,
                                             types=(12,), quals=(0, 1, 2, 4, 6))))
        # qualifier sets with extended qualifiers (high bits of the representation) merged with and into standard ones
        J.append(("extended", base_consts(["get_qualified"], 3 if q else 4, types=(12,), quals=(1, 6, 8, 16, 9, 24),
                                          prelude="PreludeClass")))
    elif pid == "C13":
        words = BUILTIN_WORDS + ["default", "C", "C++", "nullptr", "in", "Int", "intt", "auto", "false", "this"]
        J.append(("routes", base_consts(["get_identifier", "get_identifier_s", "get_as_type_id", "get_label", "get_linkage",
                                         "get_linkage_s", "get_decltype"],
                                        2, types=(), exprs=(), ids=tuple(range(38, 71)), words=words)))
        J.append(("mixed", base_consts(["get_identifier", "get_as_type_id", "get_label", "get_pointer",
                                        "get_symbol"],
                                       3, types=(12, 1), ids=(49, 67, 38), words=("int", "default", "void", "x"))))
    return J


RECORD_OPS = {
    "C02": TYPE_OPS + NAME_OPS + ["mk_class", "mk_phantom", "mk_expr_list", "mk_template"],
    "C01": TYPE_OPS + ["get_linkage", "get_calling_convention", "get_identifier", "mk_class", "mk_phantom",
                       "get_symbol", "get_decltype", "get_auto"],
    "C04": NAME_OPS + ["get_pointer", "get_product", "get_forall", "mk_template", "mk_expr_list", "mk_phantom",
                       "mk_class", "get_transfer", "get_transfer_from_linkage", "get_transfer_from_convention"],
    "C11": ["get_qualified", "get_pointer", "get_reference", "mk_class", "get_product", "get_function",
            "get_array"],
    "C09": TYPE_OPS + ["get_symbol", "get_label", "get_this", "get_literal", "make_literal", "get_identifier", "mk_class",
                       "get_template_id", "mk_expr_list"],
    "C13": ["get_identifier", "get_identifier_s", "get_linkage_s", "get_as_type_id", "get_label", "get_linkage", "get_decltype", "get_symbol",
            "get_this", "get_calling_convention", "get_transfer", "get_literal"],
}


# focused recorded histories: few operand coordinates, many requests, so that the keys of one table share coordinates
# (operands repeat while one coordinate varies) and earlier requests are repeated after the table has rebalanced
FOCUSED = {
    "C01": [("xfer-grid", 1, "C|C++|Ada|D|Java|cdecl", ["get_linkage", "get_calling_convention", "get_transfer", "get_transfer"]
             + ["get_function_x"] * 5 + ["get_as_type_x"] * 3 + ["get_function_ex", "get_product"]),
            ("binary-grid", 4, None, ["get_array", "get_ptr_to_member", "get_forall", "get_tor", "get_qualified", "get_function",
                                "get_function_e", "get_product", "get_sum", "get_pointer", "mk_phantom"])],
    "C04": [("names-many", 2, "a|f|b|i|h|g|e|c|d|m|k|z|q|w|y|n|p|r|t|v|x1|foo|bar|zz",
             ["get_identifier", "get_operator", "get_literal", "get_linkage", "get_calling_convention", "get_logogram", "get_identifier_s"]),
            ("atoms-grid", 4, "a|b|int|default|x1|this", ["get_symbol", "get_literal", "make_literal", "get_template_id", "get_identifier", "mk_expr_list",
                               "get_this", "get_label", "get_suffix", "get_conversion", "get_pointer", "mk_phantom"])],
    "C09": [("symbol-grid", 3, "a|b|this", ["get_symbol", "get_symbol", "get_label", "get_this", "get_identifier", "get_pointer",
                                            "get_literal", "mk_class"])],
    "C11": [("qual-grid", 3, None, ["get_qualified", "get_qualified", "get_pointer", "mk_class"])],
}


def type_changed(ev, prefix):
    """Attribution only (TLC has already rejected the line): does this line report, for an entity seen earlier in the same
    execution, another type than it reported then?"""
    r, ty = ev.get("r"), (ev.get("o") or {}).get("ty")
    for ln in prefix[:-1]:
        try:
            e = json.loads(ln)
        except ValueError:
            continue
        if e.get("r") == r and "o" in e and e.get("out", "ok") == "ok":
            return (e["o"] or {}).get("ty") != ty
    return False


def atom_type_wrong(ev):
    """Attribution only: an atom that reports another type than the one it was requested with."""
    op, a, ty = ev.get("op"), ev.get("a") or [], (ev.get("o") or {}).get("ty")
    if ev.get("out") != "ok":
        return False
    if op in ("get_literal", "make_literal", "get_literal_s", "make_literal_s", "get_this"):
        return len(a) >= 1 and ty != a[0]
    if op == "get_symbol":
        return len(a) >= 2 and ty != a[1]
    return False


def is_start(ev):
    return ev.get("op") == "init"


def run(pid, tier, seed):
    exe = vlib.build_harness("unify", ["unify.cxx"])
    q = tier == "quick"
    jobs = jobs_for(pid, tier)
    invs = ["UInvariant"]
    violations = []
    samples = []
    states = transitions = 0
    behaviours = steps = 0
    classes = set()
    foreign = 0
    per_job = {}

    def run_job(j):
        name, consts = j
        return vlib.generate_and_replay("IprUnifyMC", "%s-%s" % (pid, name), consts, exe, invariants=invs,
                                        properties=["StableMC"], workers=4, timeout=1500 if not q else 600,
                                        heap="6g")

    trace_dir = vlib.trace_dir()
    os.makedirs(trace_dir, exist_ok=True)
    tr_specs = []
    nruns, length = (6, 120) if q else (30, 250)
    for k, noise in enumerate([0, 40] if q else [0, 40, 400]):
        tp = os.path.join(trace_dir, "%s-%s-%d-%d.ndjson" % (pid, tier, seed, k))
        vlib.record_trace(exe, ["record", "--seed", seed * 1000 + k, "--runs", nruns, "--len", length,
                                "--noise", noise, "--ops", ",".join(RECORD_OPS[pid])], tp, timeout=300)
        tr_specs.append(tp)
    # every run starts right before the end of a string storage block: the spellings of the history lie on both sides of the change
    # of block (short runs, so that the first words of the run are asked for again soon after the change)
    tp = os.path.join(trace_dir, "%s-%s-%d-edge.ndjson" % (pid, tier, seed))
    vlib.record_trace(exe, ["record", "--seed", seed * 1000 + 99, "--runs", 8 if q else 40, "--len", 60, "--noise", 0, "--edge", 1,
                            "--ops", ",".join(RECORD_OPS[pid])], tp, timeout=300)
    tr_specs.append(tp)
    for (fname, focus, wordset, fops) in FOCUSED.get(pid, []):
        tp = os.path.join(trace_dir, "%s-%s-%d-%s.ndjson" % (pid, tier, seed, fname))
        vlib.record_trace(exe, ["record", "--seed", seed * 1000 + 77, "--runs", 3 if q else 12, "--len", 400 if q else 600,
                                "--noise", 0, "--focus", focus, "--ops", ",".join(fops)] + (["--wordset", wordset] if wordset else []), tp, timeout=300)
        tr_specs.append(tp)

    def run_trace(tp):
        return vlib.validate_trace_resync("IprUnifyTrace", tp, invariants=invs, name=pid, is_start=is_start,
                                          timeout=1500)

    with ThreadPoolExecutor(max_workers=8) as ex:
        job_f = [ex.submit(run_job, j) for j in jobs]
        tr_f = [ex.submit(run_trace, tp) for tp in tr_specs]
        job_r = [f.result() for f in job_f]
        tr_r = [f.result() for f in tr_f]

    seen_keys = set()
    for r in job_r:
        t, s = r["tlc"], r["summary"]
        states += t.distinct
        transitions += t.generated
        behaviours += s["behaviours"]
        steps += s["steps"]
        classes.update(s["class_list"])
        per_job[r["name"]] = {"behaviours": s["behaviours"], "failed": s["failed"], "fail_keys": s["fail_keys"],
                              "tlc_states": t.distinct}
        if s["behaviours"] == 0:
            raise vlib.ModelFailure("job %s generated no behaviour" % r["name"])
        if s.get("sample") and len(samples) < 3:
            samples.append({"kind": "TLC behaviour replayed into the library (%s)" % r["name"],
                            "behaviour": json.loads(s["sample"])})
        if r["crash"]:
            try:
                reqs = "\n".join(json.dumps(h["ev"]) for h in json.loads(r["crash"]["beh"]))
            except ValueError:
                reqs = ""
            path = vlib.save_replay(pid, "%s-crash.ndjson" % r["name"], reqs + "\n")
            violations.append(("crash", "the library crashed (rc=%s) while executing a TLC behaviour" % r["crash"]["rc"], path))
        for f in r["fails"]:
            if not mine(pid, f):
                foreign += 1
                continue
            key = f["key"]
            if key in seen_keys:
                continue
            seen_keys.add(key)
            reqs = "\n".join(json.dumps({k: e[k] for k in ("op", "a", "q", "w")}) for e in f.get("beh", []))
            path = vlib.save_replay(pid, re.sub(r"[^A-Za-z0-9_.-]+", "_", key) + ".ndjson", reqs + "\n")
            exp, got = f.get("expected", {}), f.get("got", {})
            text = "step %s of a TLC behaviour: %s(%s q=%s w=%r) specification expects out=%s id=%s %s, library gave out=%s id=%s %s" % (
                f.get("step"), exp.get("op"), exp.get("a"), exp.get("q"), exp.get("w"), exp.get("out"), exp.get("r"),
                json.dumps(exp.get("o")), got.get("out"), got.get("r"), json.dumps(got.get("o")))
            violations.append((key, text, path))
    ok_behaviours = behaviours - sum(j["failed"] for j in per_job.values())

    traces_ok = 0
    tr_events = 0
    for tp, r in zip(tr_specs, tr_r):
        states += r["states"]
        transitions += r["transitions"]
        tr_events += r["lines"]
        traces_ok += r["executions"] - len(r["rejections"])
        for (lineno, line, prefix) in r["rejections"]:
            try:
                ev = json.loads(line)
            except ValueError:
                ev = {"op": "?"}
            f = {"key": "trace:%s" % ev.get("op"), "expected": {"op": ev.get("op")}}
            # attribute: a rejected trace line counts for the property whose ops it belongs to
            ok_mine = (pid == "C13" and (ev.get("op") == "init" or (ev.get("r", 99) <= 71 and ev.get("out") == "ok"))) \
                or (pid == "C11" and ev.get("op") == "get_qualified") \
                or (pid == "C01" and ev.get("op") in TYPE_OPS) \
                or (pid == "C04" and ev.get("op") in NAME_OPS) \
                or (pid == "C02" and ev.get("op") in TYPE_OPS + NAME_OPS) \
                or (pid == "C09" and (type_changed(ev, prefix) or atom_type_wrong(ev))) \
                or ev.get("op") in ("mk_class", "mk_phantom", "mk_expr_list", "mk_template", "get_decltype", "get_auto") \
                or ev.get("op") in ("Crash", "Sanitizer")        # the library died or hung in a history of this property's requests
            if not ok_mine:
                foreign += 1
                continue
            key = f["key"]
            if key in seen_keys:
                continue
            seen_keys.add(key)
            reqs = "\n".join(json.dumps({k: json.loads(e)[k] for k in ("op", "a", "q", "w")}) for e in prefix)
            path = vlib.save_replay(pid, re.sub(r"[^A-Za-z0-9_.-]+", "_", key) + ".ndjson", reqs + "\n")
            violations.append((key, "recorded trace %s line %d is not a step of IprUnify: %s" % (
                os.path.basename(tp), lineno, line[:400]), path))
        if len(samples) < 5:
            with open(tp) as fh:
                head = [json.loads(x) for x in fh.read().splitlines()[:4]] or [{}]
            samples.append({"kind": "recorded trace excerpt (%s)" % os.path.basename(tp), "events": head[1:]})

    nontrivial = sorted(c for c in classes if "|const|" not in c or True)
    coverage = {
        "states": states,
        "transitions": transitions,
        "traces_validated_against_impl": ok_behaviours + traces_ok,
        "evaluations": steps + tr_events,
        "distinct_nontrivial": len(nontrivial),
        "rule": "binding A: every behaviour of the job alphabets up to the job depth, enumerated by TLC and replayed; "
                "binding B: seeded random histories validated line by line. A case class is (operation, predicted "
                "outcome kind fresh/existing/const/refused/bool, operand shape const/created/qualifier/word); "
                "distinct_nontrivial counts the classes seen in replayed behaviours.",
        "samples": samples,
        "exhaustive": True,
        "exhaustive_scope": "all behaviours of each job alphabet up to its depth (see jobs); random traces are not exhaustive",
        "jobs": per_job,
        "tlc_behaviours_replayed": behaviours,
        "recorded_executions": sum(r["executions"] for r in tr_r),
        "recorded_events": tr_events,
        "failures_attributed_to_other_properties": foreign,
        "tier_params": {"trace_runs": nruns, "trace_len": length},
    }
    return {"coverage": coverage, "violations": violations,
            "assumptions": ["TLC explores bounded alphabets/depths; identities are compared as addresses",
                            "transfers are modelled as the library builds them (three tables)"]}


def replay(pid, path):
    exe = vlib.build_harness("unify", ["unify.cxx"])
    import subprocess
    out = os.path.join(vlib.BUILD, "traces", "replay-%s-%d.ndjson" % (pid, os.getpid()))
    os.makedirs(os.path.dirname(out), exist_ok=True)
    with open(path) as fin, open(out, "w") as fout:
        r = subprocess.run([exe, "script"], stdin=fin, stdout=fout)
    if r.returncode != 0:
        print("MODEL-FAILURE replay harness rc=%s" % r.returncode)
        return 2
    ok, rej, res = vlib.validate_trace("IprUnifyTrace", out, invariants=["UInvariant"], name="replay")
    if ok:
        print("replay accepted: the library follows the specification on %s" % path)
        return 0
    line = open(out).read().splitlines()[rej - 1] if rej >= 1 else ""
    print("VIOLATION property=%s replay=%s" % (pid, path))
    print("  rejected at line %d: %s" % (rej, line[:500]))
    return 1
