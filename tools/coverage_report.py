#!/usr/bin/env python3
"""tools/coverage_report.py: merge the gcov data of every instrumented object under build-cov/ (tools/coverage.sh) and list, per
file of /repo/src and /repo/include/ipr, the executable lines no driver of any check or extra reached -> build-cov/uncovered.txt"""
import collections
import glob
import os
import re
import subprocess
import tempfile

V = os.path.dirname(os.path.dirname(os.path.abspath(__file__)))
B = os.path.join(V, "build-cov")
hit = collections.defaultdict(dict)
for gcda in glob.glob(os.path.join(B, "*", "*.gcda")):
    d = os.path.dirname(gcda)
    with tempfile.TemporaryDirectory() as tmp:
        subprocess.run(["gcov", "-p", "-o", d, gcda], cwd=tmp, stdout=subprocess.DEVNULL, stderr=subprocess.DEVNULL)
        for f in glob.glob(os.path.join(tmp, "*.gcov")):
            src = None
            for ln in open(f, errors="replace"):
                m = re.match(r"\s*([^:]+):\s*(\d+):(.*)", ln)
                if not m:
                    continue
                c, n, t = m.group(1).strip(), int(m.group(2)), m.group(3)
                if n == 0:
                    if t.startswith("Source:"):
                        src = os.path.realpath(t[7:]) if t[7:].startswith("/") else t[7:]
                    continue
                if src is None or not src.startswith("/repo/") or c == "-":
                    continue
                e = 0 if c[0] in "#=" else 1
                hit[src][n] = max(hit[src].get(n, 0), e)
with open(os.path.join(B, "uncovered.txt"), "w") as out:
    for src in sorted(hit):
        un = sorted(n for n, e in hit[src].items() if not e)
        out.write("%s: %d of %d executable lines never reached\n" % (src, len(un), len(hit[src])))
        lines = open(src, errors="replace").read().split("\n") if un else []
        for n in un:
            out.write("   %5d: %s\n" % (n, lines[n - 1] if n - 1 < len(lines) else ""))
print(subprocess.run("grep 'never reached' %s" % os.path.join(B, "uncovered.txt"), shell=True, capture_output=True, text=True).stdout)
