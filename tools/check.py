#!/usr/bin/env python3
"""bin/check <property> quick|thorough   |   bin/check <property> --replay <path>

Exit 0: the property held on everything explored (KNOWN-FINDING lines may be printed).
Exit 1: at least one `VIOLATION property=<id> replay=<path>` line was printed.
Exit 2: the machinery failed (build, TLC, timeout); nothing is claimed either way.
"""
import importlib
import os
import sys
import time
import traceback

sys.path.insert(0, os.path.dirname(os.path.abspath(__file__)))
import vlib  # noqa: E402

MODULES = {
    "C01": "p_unify", "C04": "p_unify", "C11": "p_unify", "C13": "p_unify",
    "C05": "p_stable", "C06": "p_visit", "C07": "p_scopes", "C08": "p_rbtree", "C02": "p_make", "C09": "p_make", "C03": "p_strings", "C10": "p_specs", "C12": "p_regions", "C14": "p_seq", "C15": "p_seq", "C16": "p_subst", "C17": "p_printer", "C19": "p_ledger", "C20": "p_threads", "C18": "p_printer",
}


def main():
    if len(sys.argv) < 3:
        print(__doc__)
        return 2
    pid = sys.argv[1]
    mode = sys.argv[2]
    if pid not in MODULES:
        print("unknown property", pid)
        return 2
    mod = importlib.import_module(MODULES[pid])
    seed = int(os.environ.get("VERIF_SEED", "1") or "1")
    t0 = time.time()
    try:
        if mode == "--replay":
            return mod.replay(pid, sys.argv[3])
        tier = os.environ.get("VERIF_TIER") or mode
        if tier not in ("quick", "thorough"):
            tier = mode if mode in ("quick", "thorough") else "quick"
        result = mod.run(pid, tier, seed)
    except vlib.ModelFailure as ex:
        print("MODEL-FAILURE property=%s: %s" % (pid, ex))
        return 2
    except Exception:
        traceback.print_exc()
        print("MODEL-FAILURE property=%s: internal error" % pid)
        return 2
    wall = time.time() - t0
    # result: dict(coverage=..., violations=[(key, text, replay_path)], known=[...], assumptions=[...], vacuous=[...])
    known = vlib.known_findings()
    nviol = 0
    for key, text, replay in result["violations"]:
        hit = [k for k in known if k["property"] == pid and k["key"] == key]
        if hit:
            print("KNOWN-FINDING: property=%s %s (%s)" % (pid, hit[0]["text"] or text, key))
        else:
            nviol += 1
            print("VIOLATION property=%s replay=%s" % (pid, replay))
            print("  what: %s [%s]" % (text, key))
    vlib.write_evidence(pid, tier, seed, result["coverage"], wall, nviol, result.get("assumptions", ()))
    if result.get("vacuous") and not nviol:
        print("MODEL-FAILURE property=%s: vacuous run: %s" % (pid, "; ".join(result["vacuous"])))
        return 2
    cov = result["coverage"]
    print("property=%s tier=%s states=%s traces=%s evaluations=%s distinct=%s violations=%d wall=%.0fs" % (
        pid, tier, cov.get("states"), cov.get("traces_validated_against_impl"), cov.get("evaluations"),
        cov.get("distinct_nontrivial"), nviol, wall))
    return 1 if nviol else 0


if __name__ == "__main__":
    sys.exit(main())
