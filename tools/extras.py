#!/usr/bin/env python3
"""bin/extras [<name>|all] [quick|thorough]

Conformance of the parts of the specification that go beyond the listed properties (DESIGN section 13).  These are not
property checks: a disagreement is printed as `DEVIATION spec=<name> replay=<path>` (exit 1) and means the library no
longer behaves as the specification describes, not that a listed property is violated.  Reports go to extras/<name>.json.
"""
import importlib
import json
import os
import sys
import time
import traceback

sys.path.insert(0, os.path.dirname(os.path.abspath(__file__)))
import vlib  # noqa: E402

MODULES = {"units": "x_units", "render": "x_render", "exprs": "x_exprs", "forms": "x_forms", "stmts": "x_stmts", "compose": "x_compose"}


def main():
    which = sys.argv[1] if len(sys.argv) > 1 else "all"
    tier = sys.argv[2] if len(sys.argv) > 2 else "quick"
    names = sorted(MODULES) if which == "all" else [which]
    rc = 0
    for name in names:
        if name not in MODULES:
            print("unknown extra", name)
            return 2
        mod = importlib.import_module(MODULES[name])
        t0 = time.time()
        try:
            r = mod.run(name, tier, int(os.environ.get("VERIF_SEED", "1") or "1"))
        except vlib.ModelFailure as ex:
            print("MODEL-FAILURE spec=%s: %s" % (name, ex))
            rc = max(rc, 2)
            continue
        except Exception:
            traceback.print_exc()
            rc = max(rc, 2)
            continue
        for key, text, replay in r["deviations"]:
            print("DEVIATION spec=%s replay=%s" % (name, replay))
            print("  what: %s [%s]" % (text, key))
            rc = max(rc, 1)
        out = os.path.join(vlib.VERIF, "extras")
        os.makedirs(out, exist_ok=True)
        cov = r["coverage"]
        with open(os.path.join(out, name + ".json"), "w") as fh:
            json.dump({"spec": name, "tier": tier, "wall_s": round(time.time() - t0, 1), "deviations": len(r["deviations"]),
                       "coverage": cov}, fh, indent=1)
        print("spec=%s tier=%s states=%s traces=%s evaluations=%s deviations=%d wall=%.0fs" % (
            name, tier, cov.get("states"), cov.get("traces_validated_against_impl"), cov.get("evaluations"), len(r["deviations"]),
            time.time() - t0))
    return rc


if __name__ == "__main__":
    sys.exit(main())
