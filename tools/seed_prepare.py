#!/usr/bin/env python3
"""tools/seed_prepare.py <round-tag> <property> [...]: for each property, a scratch worktree /tmp/seed/<round-tag>-<property> of /repo's
HEAD, the property text next to it (/tmp/seed/<id>.prop.txt) and the brief for the author (/tmp/seed/<id>.prompt.txt: seeded/PROMPT.txt
with the id and a hint naming the ideas already taken for that property).  Nothing from /verif but the property text is handed out."""
import os
import subprocess
import sys

V = os.path.dirname(os.path.dirname(os.path.abspath(__file__)))
HINT = ("Ideas already used by others for this property (pick a DIFFERENT site and a different mechanism): %s. "
        "%s")


def main():
    tag, props = sys.argv[1], sys.argv[2:]
    extra = os.environ.get("SEED_HINT", "")
    os.makedirs("/tmp/seed", exist_ok=True)
    taken = {}
    for d in sorted(os.listdir(os.path.join(V, "seeded"))):
        if d[:1] == "C" and d[3:4] in "-g":
            taken.setdefault(d[:3], []).append(d.split("-", 1)[1])
    for p in props:
        sid = "%s-%s" % (tag, p)
        wt = "/tmp/seed/" + sid
        if not os.path.exists(wt):
            subprocess.check_call(["git", "-C", "/repo", "worktree", "add", "-q", "--detach", wt, "HEAD"])
        open(wt + ".prop.txt", "w").write(open(os.path.join(V, "seeded", "props", p + ".prop.txt")).read())
        t = open(os.path.join(V, "seeded", "PROMPT.txt")).read()
        t = t.replace("@ID@", sid).replace("@HINT@", HINT % (", ".join(taken.get(p, [])) or "none", extra))
        open(wt + ".prompt.txt", "w").write(t)
        print(sid)


if __name__ == "__main__":
    main()
