"""Extra conformance (not a listed property): the reference renderer for classic expressions, spec/IprExprRender.tla."""
import json

import vlib
from vlib import tla_set


def run(name, tier, seed):
    exe = vlib.build_harness("make", ["make.cxx"])
    consts = {"Depth2Kinds": tla_set(["all"])}
    r = vlib.generate_and_replay("IprExprRenderMC", name, consts, exe, ("replay-render",), (), (), 6, 3000, "6g", "Spec", "Emit")
    s, t = r["summary"], r["tlc"]
    if s["behaviours"] == 0:
        raise vlib.ModelFailure("no term generated")
    deviations, seen = [], set()
    for f in r["fails"]:
        if f["key"] in seen:
            continue
        seen.add(f["key"])
        path = vlib.save_replay(name, "%s.json" % f["key"].replace(":", "-"), json.dumps(f["beh"][0]) + "\n")
        deviations.append((f["key"], "term %s: IprExprRender expects %s, the printer gave %s" % (
            json.dumps(f["beh"][0]), json.dumps(f["expected"]), json.dumps(f["got"])), path))
    if r["crash"]:
        deviations.append(("crash", "library crashed printing %s" % r["crash"]["beh"][:300], vlib.save_replay(name, "crash.json", r["crash"]["beh"])))
    coverage = {"states": t.distinct, "transitions": max(t.generated, 1), "traces_validated_against_impl": s["behaviours"] - s["failed"],
                "evaluations": s["behaviours"], "distinct_nontrivial": s["classes"], "fail_keys": s["fail_keys"],
                "rule": "every term of nesting depth <= 2 over all expression kinds with a production (and eight without): each operand "
                        "slot of each kind filled by each kind, so every parenthesisation decision of the precedence table is taken; "
                        "built through the factories, printed by xpr_expr with a fresh Printer, bytes or refusal compared. "
                        "A class is (outer kind, inner kind).",
                "samples": [{"kind": "term and expected text", "case": json.loads(s["sample"])}]}
    return {"coverage": coverage, "deviations": deviations}
