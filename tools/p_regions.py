"""C12 — regions form a tree rooted at the global region; owners and positions are right (spec/IprRegions*.tla)."""
import json
import os
from concurrent.futures import ThreadPoolExecutor

import vlib
from vlib import tla_set

OPENERS = ["make_subregion", "make_class", "make_union", "make_enum", "make_namespace", "make_closure", "make_block",
           "make_mapping", "make_lambda", "make_requires", "make_where", "make_function_morphism"]
MEMBERS = ["new_handler", "add_param", "add_enumerator", "declare_base"]
UNITS = ["make_unit", "make_module", "make_module_unit"]


def is_start(ev):
    return ev.get("op") == "reset"


def run(pid, tier, seed):
    exe = vlib.build_harness("regions", ["regions.cxx"])
    q = tier == "quick"
    J = [
        ("all", {"Depth": 3, "Ops": tla_set(OPENERS + MEMBERS + UNITS), "Levels": tla_set([0, 2]),
                 "Targets": '"all"', "Record": "TRUE"}),
        ("nesting", {"Depth": 5, "Ops": tla_set(["make_class", "make_block", "make_mapping", "new_handler",
                                                             "make_subregion", "add_param"]),
                     "Levels": tla_set([1]), "Targets": '"some"', "Record": "TRUE"}),
        ("members", {"Depth": 5, "Ops": tla_set(["make_enum", "make_class", "make_lambda", "make_requires"] + MEMBERS),
                     "Levels": tla_set([3]), "Targets": '"some"', "Record": "TRUE"}),
    ]
    tdir = vlib.trace_dir()
    os.makedirs(tdir, exist_ok=True)
    tps = []
    for k, deep in enumerate([0, 1]):
        tp = os.path.join(tdir, "%s-%s-%d-%d.ndjson" % (pid, tier, seed, k))
        vlib.record_trace(exe, ["record", "--seed", seed * 10 + k, "--runs", 3 if q else 10, "--len", 120 if q else 300,
                                "--deep", deep], tp)
        tps.append(tp)

    def gen(j):
        return vlib.generate_and_replay("IprRegionsMC", "%s-%s" % (pid, j[0]), j[1], exe, ("replay",), ["RgInvariant"],
                                        ["GrowsMC"], 4, 3000, "6g")

    def val(tp):
        return vlib.validate_trace_resync("IprRegionsTrace", tp, ["RgInvariant"], pid, 4, is_start, None, 3000)

    with ThreadPoolExecutor(max_workers=6) as ex:
        gf = [ex.submit(gen, j) for j in J]
        tf = [ex.submit(val, tp) for tp in tps]
        gr = [f.result() for f in gf]
        trs = [f.result() for f in tf]

    violations, samples, per_job = [], [], {}
    states = transitions = beh = steps = failed = classes = 0
    seen = set()
    for r in gr:
        t, s = r["tlc"], r["summary"]
        states += t.distinct
        transitions += t.generated
        beh += s["behaviours"]
        steps += s["steps"]
        failed += s["failed"]
        classes = max(classes, s["classes"])
        per_job[r["name"]] = {k: s[k] for k in ("behaviours", "failed", "fail_keys", "classes")}
        if s["behaviours"] == 0:
            raise vlib.ModelFailure("no behaviour for %s" % r["name"])
        if len(samples) < 2:
            samples.append({"kind": "TLC behaviour (%s) with the entities each call must create" % r["name"],
                            "behaviour": json.loads(s["sample"])[-2:]})
        for f in r["fails"]:
            if f["key"] in seen:
                continue
            seen.add(f["key"])
            path = vlib.save_replay(pid, "%s.ndjson" % f["key"].replace(":", "-").replace("!", "_"),
                                    "\n".join(json.dumps(e) for e in f["beh"]) + "\n")
            violations.append((f["key"], "after %s (step %s): specification expects %s, library gave %s" % (
                json.dumps(f["beh"][-1]), f["step"], json.dumps(f["expected"])[:600], json.dumps(f["got"])[:600]), path))
        if r["crash"]:
            violations.append(("crash", "library crashed replaying a behaviour",
                               vlib.save_replay(pid, "crash-%s.ndjson" % r["name"], r["crash"]["beh"])))
    execs = rej = lines = 0
    seenk = set()
    maxdepth = 0
    for tp, tr in zip(tps, trs):
        states += tr["states"]
        transitions += tr["transitions"]
        execs += tr["executions"]
        rej += len(tr["rejections"])
        lines += tr["lines"]
        for ln in open(tp):
            for o in json.loads(ln).get("o", []):
                maxdepth = max(maxdepth, o.get("depth", 0))
        for (lineno, line, prefix) in tr["rejections"]:
            try:
                ev = json.loads(line)
            except ValueError:
                ev = {}
            key = "trace:%s" % ev.get("op", ev.get("e", "?"))
            if key in seenk:
                continue
            seenk.add(key)
            path = vlib.save_replay(pid, "trace-%d.ndjson" % lineno, "\n".join(prefix) + "\n")
            violations.append((key, "recorded line %d is not a step of IprRegions: %s" % (lineno, line[:500]), path))
    with open(tps[0]) as fh:
        head = fh.read().splitlines()
    samples.append({"kind": "recorded events", "events": [json.loads(x) for x in head[1:4]]})
    coverage = {
        "states": states, "transitions": transitions,
        "traces_validated_against_impl": beh - failed + execs - rej,
        "evaluations": steps + lines, "distinct_nontrivial": classes,
        "rule": "binding A: every sequence of 3 calls over all 19 region-related operations (targets: root/newest/newest-but-one "
                "region in quick, any region in thorough) and deeper sequences of the nesting and member operations; every "
                "entity a call creates is observed (enclosing, owner, global, outward-walk length, bound declarations, home "
                "region, level, position) and compared. A class is operation x kind of the construct it is nested in. "
                "binding B: random nestings (max depth seen %d), validated by the trace spec." % maxdepth,
        "samples": samples, "exhaustive": True, "exhaustive_scope": "per job alphabet, targets and depth", "jobs": per_job,
        "recorded_events": lines, "max_nesting_depth_recorded": maxdepth,
    }
    return {"coverage": coverage, "violations": violations,
            "assumptions": ["owner of sub-regions, base lists, requires/where/declarator parameter regions and handler "
                            "parameter regions is not prescribed by the property and not observed"]}


def replay(pid, path):
    exe = vlib.build_harness("regions", ["regions.cxx"])
    lines = [json.loads(x) for x in open(path).read().splitlines() if x.strip()]
    if any("o" in e for e in lines):
        print("recorded prefixes are deterministic re-recordings: run `bin/check C12 quick`")
        return 2
    ops = sorted({e["op"] for e in lines})
    c = {"Depth": len(lines) - 1, "Ops": tla_set(ops), "Levels": tla_set(sorted({e["a"][1] for e in lines if len(e["a"]) > 1}) or [0]),
         "Targets": '"all"', "Record": "TRUE"}
    r = vlib.generate_and_replay("IprRegionsMC", "replay", c, exe, ("replay",), ["RgInvariant"], (), 2, 900)
    want = [(e["op"], e["a"]) for e in lines]
    for f in r["fails"]:
        got = [(e["op"], e["a"]) for e in f["beh"]]
        if got == want[:len(got)]:
            print("VIOLATION property=%s replay=%s" % (pid, path))
            return 1
    print("replay accepted" if not r["summary"]["failed"] else "other sequences of the same alphabet fail; this one does not")
    return 0
