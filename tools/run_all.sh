#!/bin/sh
# run every check's quick (or thorough) command sequentially; print a one-line verdict per property
TIER="${1:-quick}"
cd "$(dirname "$0")/.."
for i in 01 02 03 04 05 06 07 08 09 10 11 12 13 14 15 16 17 18 19 20; do
  s=$(date +%s)
  bin/check C$i $TIER > build/run-$TIER-C$i.log 2>&1
  rc=$?
  e=$(date +%s)
  echo "C$i rc=$rc $((e-s))s $(grep -c '^VIOLATION' build/run-$TIER-C$i.log) violations"
done
