"""Extra conformance (not a listed property): translation units and modules, spec/IprUnits*.tla."""
import json
import os
from concurrent.futures import ThreadPoolExecutor

import vlib
from vlib import tla_set

ALL = ["new_unit", "new_module", "make_unit", "import", "own", "export_module", "export_decl", "stem"]


def is_start(ev):
    return ev.get("op") == "reset"


def run(name, tier, seed):
    exe = vlib.build_harness("units", ["units.cxx"])
    q = tier == "quick"
    base = {"NDecl": 2, "NIdent": 2, "Record": "TRUE", "MaxMods": 2}
    J = [("all", dict(base, Depth=4 if q else 5, Ops=tla_set(ALL))),
         ("sequences", dict(base, Depth=5 if q else 6, Ops=tla_set(["new_module", "import", "own", "export_decl", "stem"]), MaxMods=1)),
         ("modules", dict(base, Depth=5 if q else 6, Ops=tla_set(["new_module", "make_unit", "new_unit", "export_module"])))]
    tdir = vlib.trace_dir()
    os.makedirs(tdir, exist_ok=True)
    tp = os.path.join(tdir, "%s-%s-%d.ndjson" % (name, tier, seed))
    vlib.record_trace(exe, ["record", "--seed", seed, "--runs", 4 if q else 20, "--len", 60 if q else 120], tp)

    def gen(j):
        return vlib.generate_and_replay("IprUnitsMC", "%s-%s" % (name, j[0]), j[1], exe, ("replay",), ["UnitsInvariant"],
                                        ["OnlyGrowsMC"], 4, 3000, "6g")

    with ThreadPoolExecutor(max_workers=4) as ex:
        gf = [ex.submit(gen, j) for j in J]
        tf = ex.submit(vlib.validate_trace_resync, "IprUnitsTrace", tp, ["UnitsInvariant"], name, 4, is_start, {"NDecl": 3, "NIdent": 3}, 3000)
        gr = [f.result() for f in gf]
        tr = tf.result()

    deviations, per_job = [], {}
    states = transitions = beh = steps = failed = 0
    seen = set()
    sample = None
    for r in gr:
        t, s = r["tlc"], r["summary"]
        states += t.distinct
        transitions += t.generated
        beh += s["behaviours"]
        steps += s["steps"]
        failed += s["failed"]
        per_job[r["name"]] = {k: s[k] for k in ("behaviours", "failed", "fail_keys", "classes")}
        if s["behaviours"] == 0:
            raise vlib.ModelFailure("no behaviour for %s" % r["name"])
        sample = sample or json.loads(s["sample"])[-1:]
        for f in r["fails"]:
            if f["key"] in seen:
                continue
            seen.add(f["key"])
            path = vlib.save_replay(name, "%s.ndjson" % f["key"].replace(":", "-"), "\n".join(json.dumps(e) for e in f["beh"]) + "\n")
            deviations.append((f["key"], "after %s (step %s): specification expects %s, library gave %s" % (
                json.dumps(f["beh"][-1]), f["step"], json.dumps(f["expected"])[:500], json.dumps(f["got"])[:500]), path))
        if r["crash"]:
            deviations.append(("crash", "library crashed replaying a behaviour",
                               vlib.save_replay(name, "crash-%s.ndjson" % r["name"], r["crash"]["beh"])))
    states += tr["states"]
    transitions += tr["transitions"]
    for (lineno, line, prefix) in tr["rejections"]:
        key = "trace:%s" % json.loads(line).get("op", "?") if line.strip().startswith("{") else "trace:?"
        if key in seen:
            continue
        seen.add(key)
        deviations.append((key, "recorded line %d is not a step of IprUnits: %s" % (lineno, line[:400]),
                           vlib.save_replay(name, "trace-%d.ndjson" % lineno, "\n".join(prefix) + "\n")))
    coverage = {"states": states, "transitions": transitions,
                "traces_validated_against_impl": beh - failed + tr["executions"] - len(tr["rejections"]),
                "evaluations": steps + tr["lines"], "distinct_nontrivial": max(j["classes"] for j in per_job.values()),
                "rule": "binding A: every admissible call sequence per job (alphabet, depth) with the whole observation of all units "
                        "and modules after each call (kind, visitor hooks, parent module, imports, purview, exports, stems, "
                        "interface and implementation units, own unnamed global namespace); binding B: random histories.",
                "jobs": per_job, "samples": [{"kind": "last step of a TLC behaviour", "step": sample}],
                "recorded_events": tr["lines"]}
    return {"coverage": coverage, "deviations": deviations}
