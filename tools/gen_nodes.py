#!/usr/bin/env python3
"""The node table: every generative factory of the library with the accessor each argument must come back under,
its type rule and its settable links.  Written from the interface documentation (<ipr/interface>, <ipr/cxx-form>,
<ipr/attribute>, <ipr/ancillary>), not from the implementation.

Generates   spec/IprNodesTable.tla   (the table as TLA+ data: what the specification expects)
            harness/gen_make.inc     (C++ dispatch: how to call each factory and read each accessor back)

Notation of a row:
  F(op, iface, cat, params, call, acc, type, links)
    op      operation name in traces            iface   C++ interface type the result is read through
    cat     category name ("-" for non-nodes)   params  sorts of the arguments (see SORTS)
    call    C++ call; $1..$n are the converted arguments; the result is a pointer or reference
    acc     "name=src ..." accessor bindings.  src: k (argument k), 0 (absent: empty Optional / empty sequence / zero),
            #v (constant integer v), ty:k (the type of argument k), nm:k (the name of argument k), el:k (the elements of
            argument k), [k,j] (the list of arguments), @l (link l: refused until set), ?l (link l: absent until set),
            *l (sequence link l: elements pushed so far)
    type    G k given | G? k given if supplied else refused | F c fixed (identity of constant c) | B k type of argument k |
            BL l type of link l | N refused (nothing ever gives it a type) | - the interface has no type()
    links   "l:sort:kind:C++" settable parts; kind set (assign) or push (append); C++ uses $n for the impl node, $v value
"""
import os
import re

VERIF = os.path.dirname(os.path.dirname(os.path.abspath(__file__)))

# sort -> (C++ conversion of argument id `x`, is_optional)
SORTS = {
    "E": "w.as<ipr::Expr>({x})", "T": "w.as<ipr::Type>({x})", "OT": "optT({x})", "I": "w.as<ipr::Identifier>({x})",
    "N": "w.as<ipr::Name>({x})", "S": "w.as<ipr::String>({x})", "OS": "optS({x})", "EL": "w.as<ipr::Expr_list>({x})",
    "OEL": "optEL({x})", "ENC": "w.as<ipr::Enclosure>({x})", "CTOR": "w.as<ipr::Construction>({x})",
    "LIT": "w.as<ipr::Literal>({x})", "BLK": "w.as<ipr::Block>({x})", "SR": "w.as<ipr::Scope_ref>({x})",
    "SC": "w.as<ipr::Scope>({x})", "R": "w.as<ipr::Region>({x})", "D": "w.as<ipr::Decl>({x})",
    "P": "w.as<ipr::Parameter>({x})", "ST": "w.as<ipr::Stmt>({x})", "V": "w.as<ipr::Var>({x})",
    "Q": "w.quals({x})", "DELIM": "static_cast<ipr::Delimiter>({x})", "CAT": "static_cast<ipr::Category_code>({x})",
    "PH": "static_cast<ipr::Phases>({x})", "MODE": "static_cast<ipr::Using_declaration::Designator::Mode>({x})",
    "BM": "static_cast<ipr::Binding_mode>({x})", "RF": "static_cast<ipr::cxx_form::Reference_flavor>({x})",
    "LVL": "ipr::Mapping_level{{static_cast<std::size_t>({x})}}", "EK": "static_cast<ipr::Enum::Kind>({x})",
    "SUBST": "raw<ipr::Substitution>({x})", "TOK": "raw<ipr::Token>({x})", "ATTR": "raw<ipr::Attribute>({x})",
    "ATTRS": "raw<ipr::Sequence<ipr::Attribute>>({x})", "SPEC": "raw<ipr::cxx_form::Species_declarator>({x})",
    "EI": "raw<ipr::cxx_form::Elemental_initializer>({x})", "NAMED": "raw<ipr::Capture_specification::Named>({x})",
    "LNK": "w.linkage({x})", "FN": "w.as<ipr::Function>({x})", "FA": "w.as<ipr::Forall>({x})",
    "TV": "static_cast<ipr::TokenValue>({x})", "TC": "static_cast<ipr::TokenCategory>({x})",
    "MAP": "w.as<ipr::Mapping>({x})", "FD": "w.as<ipr::Fundecl>({x})",
}

# The operand pool: (name, sorts it serves, C++ expression yielding the id, facts)
NCONST = 71
POOL = [
    ("idA", "I N", 'w.reg(lx.get_identifier(u8"alpha"))', {}),
    ("idB", "I N", 'w.reg(lx.get_identifier(u8"beta"))', {}),
    ("strA", "S OS", 'w.reg(lx.get_string(u8"sA"))', {}),
    ("strB", "S OS", 'w.reg(lx.get_string(u8"sB"))', {}),
    ("e1", "E LIT", 'w.reg(*lx.make_literal(lx.int_type(), u8"1"))', {"ty": 12}),
    ("e2", "E LIT", 'w.reg(*lx.make_literal(lx.char_type(), u8"c"))', {"ty": 3}),
    ("el1", "EL OEL", 'mk_list({e1})', {"el": ["e1"]}),
    ("el2", "EL OEL", 'mk_list({e2, e1})', {"el": ["e2", "e1"]}),
    ("enc1", "ENC", 'w.reg(*lx.make_enclosure(ipr::Delimiter::Paren, w.as<ipr::Expr>(el1)))', {}),
    ("enc2", "ENC", 'w.reg(*lx.make_enclosure(ipr::Delimiter::Brace, w.as<ipr::Expr>(el2)))', {}),
    ("ctor1", "CTOR", 'w.reg(*lx.make_construction(lx.int_type(), w.as<ipr::Enclosure>(enc1)))', {"ty": 12}),
    ("ctor2", "CTOR", 'w.reg(*lx.make_construction(lx.char_type(), w.as<ipr::Enclosure>(enc2)))', {"ty": 3}),
    ("gr", "R", 'w.reg(*w.unit.global_region())', {}),
    ("sub", "R", 'w.reg(*(pool_sub = w.unit.global_region()->make_subregion()))', {}),
    ("v1", "D V", 'w.reg(*w.unit.global_scope()->make_var(w.as<ipr::Name>(idA), lx.int_type()))', {"ty": 12, "nm": "idA"}),
    ("v2", "D V", 'w.reg(*w.unit.global_scope()->make_var(w.as<ipr::Name>(idB), lx.char_type()))', {"ty": 3, "nm": "idB"}),
    ("sc1", "SC", 'w.reg(w.as<ipr::Region>(gr).bindings())', {}),
    ("sc2", "SC", 'w.reg(w.as<ipr::Region>(sub).bindings())', {}),
    ("blk1", "BLK", 'w.reg(*lx.make_block(w.as<ipr::Region>(gr), lx.int_type()))', {"ty": 12}),
    ("blk2", "BLK", 'w.reg(*lx.make_block(w.as<ipr::Region>(sub), lx.char_type()))', {"ty": 3}),
    ("st1", "ST", 'w.reg(*lx.make_expr_stmt(w.as<ipr::Expr>(e1)))', {"ty": 12}),
    ("st2", "ST", 'w.reg(*lx.make_expr_stmt(w.as<ipr::Expr>(e2)))', {"ty": 3}),
    ("sr1", "SR", 'w.reg(*lx.make_scope_ref(w.as<ipr::Expr>(e1), w.as<ipr::Expr>(e2)))', {}),
    ("sr2", "SR", 'w.reg(*lx.make_scope_ref(w.as<ipr::Expr>(e2), w.as<ipr::Expr>(e1)))', {}),
    ("map1", "MAP", 'w.reg(*(pool_mapping = lx.make_mapping(w.as<ipr::Region>(gr), ipr::Mapping_level{1})))', {}),
    ("p1", "P", 'w.reg(*pool_mapping->param(w.as<ipr::Name>(idA), lx.int_type()))', {"ty": 12, "nm": "idA"}),
    ("p2", "P", 'w.reg(*pool_mapping->param(w.as<ipr::Name>(idB), lx.char_type()))', {"ty": 3, "nm": "idB"}),
    ("sb1", "SUBST", 'reg_raw(static_cast<const ipr::Substitution*>(lx.make_elementary_substitution(w.as<ipr::Parameter>(p1), w.as<ipr::Expr>(e1))))', {}),
    ("sb2", "SUBST", 'reg_raw(static_cast<const ipr::Substitution*>(lx.make_general_substitution()))', {}),
    ("tok1", "TOK", 'reg_raw(new_token(w.as<ipr::String>(strA), 1, 2, 3, ipr::TokenValue{5}, ipr::TokenCategory{1}))', {}),
    ("tok2", "TOK", 'reg_raw(new_token(w.as<ipr::String>(strB), 4, 5, 6, ipr::TokenValue{7}, ipr::TokenCategory{2}))', {}),
    ("at1", "ATTR", 'reg_raw(static_cast<const ipr::Attribute*>(&attrs.make_basic_attribute(*raw<ipr::Token>(tok1))))', {}),
    ("at2", "ATTR", 'reg_raw(static_cast<const ipr::Attribute*>(&attrs.make_basic_attribute(*raw<ipr::Token>(tok2))))', {}),
    ("ats1", "ATTRS", 'mk_attrs({at1})', {"el": ["at1"]}),
    ("ats2", "ATTRS", 'mk_attrs({at2, at1})', {"el": ["at2", "at1"]}),
    ("sp1", "SPEC", 'reg_raw(static_cast<const ipr::cxx_form::Species_declarator*>(forms().make_unqualified_id_species(w.as<ipr::Name>(idA))))', {}),
    ("sp2", "SPEC", 'reg_raw(static_cast<const ipr::cxx_form::Species_declarator*>(forms().make_pack_species(w.as<ipr::Identifier>(idB))))', {}),
    ("ei1", "EI", 'reg_raw(static_cast<const ipr::cxx_form::Elemental_initializer*>(forms().make_braced_provision()))', {}),
    ("ei2", "EI", 'reg_raw(static_cast<const ipr::cxx_form::Elemental_initializer*>(forms().make_designated_provision()))', {}),
    ("nc1", "NAMED", 'reg_raw(static_cast<const ipr::Capture_specification::Named*>(&caps.enclosing_local_capture(w.as<ipr::Decl>(v1), ipr::Binding_mode::Copy)))', {}),
    ("fn1", "FN", 'w.reg(lx.get_function(lx.get_product(impl::Warehouse<ipr::Type>{}), lx.int_type()))', {"ty": 22}),
    ("fn2", "FN", 'w.reg(lx.get_function(lx.get_product(impl::Warehouse<ipr::Type>{}), lx.char_type()))', {"ty": 22}),
    ("fa1", "FA", 'w.reg(lx.get_forall(lx.get_product(impl::Warehouse<ipr::Type>{}), lx.int_type()))', {"ty": 22}),
    ("fa2", "FA", 'w.reg(lx.get_forall(lx.get_product(impl::Warehouse<ipr::Type>{}), lx.char_type()))', {"ty": 22}),
    ("nc2", "NAMED", 'reg_raw(static_cast<const ipr::Capture_specification::Named*>(&caps.binding_capture(w.as<ipr::Identifier>(idB), w.as<ipr::Expr>(e2), ipr::Binding_mode::Reference)))', {}),
    ("pl1", "PL", 'w.reg(static_cast<const ipr::Mapping&>(*pool_mapping).parameters())', {}),
    ("opplus", "N", 'w.reg(lx.get_operator(u8"+"))', {}),
    ("vop", "D V", 'w.reg(*w.unit.global_scope()->make_var(w.as<ipr::Name>(opplus), lx.char_type()))', {"ty": 3, "nm": "opplus"}),
    ("fd1", "FD", 'w.reg(*w.unit.global_region()->declare_fun(w.as<ipr::Name>(idB), w.as<ipr::Function>(fn2)))', {"nm": "idB"}),
    # a redeclaration (same name and type as v1): an operand that is not the master of its declaration set
    ("v1r", "D V", 'w.reg(*w.unit.global_scope()->make_var(w.as<ipr::Name>(idA), lx.int_type()))', {"ty": 12, "nm": "idA"}),
]
POOL_ID = {name: NCONST + 1 + k for k, (name, _, _, _) in enumerate(POOL)}
# candidates per sort: [first, second]; constants for types and small integers for enumerations
CAND = {"LNK": [34, 35], "T": [12, 3], "OT": [12, 3, 0], "Q": [1, 6], "DELIM": [0, 1, 2, 3, 4], "CAT": [58, 75], "PH": [8, 64, 4095, -1, -2049, 65536],
        "MODE": [0, 1, 2], "BM": [0, 1, 2], "RF": [0, 1], "LVL": [0, 3, 2147483647], "EK": [0, 1], "TV": [5, 9], "TC": [1, 2]}
for name, sorts, _, _ in POOL:
    for s in sorts.split():
        CAND.setdefault(s, []).append(POOL_ID[name])
for s in ("OS", "OEL"):
    CAND[s].append(0)

ROWS = []


def F(op, iface, cat, params, call, acc, type_, links=""):
    ROWS.append(dict(op=op, iface=iface, cat=cat, params=params.split(), call=call, acc=acc.split(), type=type_,
                     links=[l for l in links.split("|") if l.strip()]))


# ---- unary expressions ---------------------------------------------------------------------------------------
for n, c in [("address", "Address"), ("complement", "Complement"), ("deref", "Deref"), ("not", "Not"),
             ("post_increment", "Post_increment"), ("post_decrement", "Post_decrement"), ("pre_increment", "Pre_increment"),
             ("pre_decrement", "Pre_decrement"), ("unary_minus", "Unary_minus"), ("unary_plus", "Unary_plus"),
             ("expansion", "Expansion")]:
    F("make_" + n, "ipr::" + c, c, "E OT", "lx.make_%s($1, $2)" % n, "operand=1 implementation=?impl", "G? 2",
      "impl:E:set:$n->op_impl = &$v")
F("make_throw", "ipr::Throw", "Throw", "E OT", "lx.make_throw($1, $2)", "operand=1 exception=1 implementation=?impl", "G? 2",
  "impl:E:set:$n->op_impl = &$v")
F("make_delete", "ipr::Delete", "Delete", "E", "lx.make_delete($1)", "operand=1 storage=1 implementation=?impl", "N", "impl:E:set:$n->op_impl = &$v")
F("make_array_delete", "ipr::Array_delete", "Array_delete", "E", "lx.make_array_delete($1)", "operand=1 storage=1 implementation=?impl", "N", "impl:E:set:$n->op_impl = &$v")
for n, c in [("alignof", "Alignof"), ("sizeof", "Sizeof"), ("args_cardinality", "Args_cardinality"), ("typeid", "Typeid"),
             ("noexcept", "Noexcept")]:
    F("make_" + n, "ipr::" + c, c, "E OT", "lx.make_%s($1, $2)" % n, "operand=1", "G? 2")
for n, c in [("demotion", "Demotion"), ("promotion", "Promotion"), ("read", "Read"), ("materialization", "Materialization")]:
    F("make_" + n, "ipr::" + c, c, "E T", "lx.make_%s($1, $2)" % n, "operand=1", "G 2")
F("make_restriction", "ipr::Restriction", "Restriction", "E", "lx.make_restriction($1)", "operand=1", "F 2")
F("make_label", "ipr::Label", "Label", "I OT", "lx.make_label($1, $2)", "operand=1 name=1", "G? 2")
F("make_id_expr", "ipr::Id_expr", "Id_expr", "N OT", "lx.make_id_expr($1, $2)", "operand=1 name=1 resolution=?decls", "G? 2",
  "decls:E:set:$n->decls = &$v")
F("make_id_expr_decl", "ipr::Id_expr", "Id_expr", "D", "lx.make_id_expr($1)", "operand=nm:1 name=nm:1 resolution=1", "B 1")
F("make_enclosure", "ipr::Enclosure", "Enclosure", "DELIM E OT", "lx.make_enclosure($1, $2, $3)", "delimiters=1 operand=2 expr=2", "G? 3")
F("make_construction", "ipr::Construction", "Construction", "T ENC", "lx.make_construction($1, $2)",
  "operand=2 arguments=2 implementation=?impl", "G 1", "impl:E:set:$n->op_impl = &$v")
F("make_expr_list", "ipr::Expr_list", "Expr_list", "", "lx.make_expr_list()", "operand=*items elements=*items", "PROD items",
  "items:E:push:$n->push_back(&$v)")
F("make_phantom", "ipr::Phantom", "Phantom", "", "lx.make_phantom()", "", "N")
F("make_phantom_t", "ipr::Phantom", "Phantom", "T", "lx.make_phantom($1)", "", "G 1")
F("make_eclipsis", "ipr::Eclipsis", "Eclipsis", "T", "lx.make_eclipsis($1)", "", "G 1")
F("make_asm", "ipr::Phased_evaluation", "Phased_evaluation", "S", "lx.make_asm($1)", "phases=#256 expression.as_Asm.operand=1 expression.as_Asm.text=1",
  "F 1")
F("make_static_assert", "ipr::Phased_evaluation", "Phased_evaluation", "E OS", "lx.make_static_assert($1, $2)",
  "phases=#240 expression.as_Static_assert.first=1 expression.as_Static_assert.condition=1 expression.as_Static_assert.second=2 expression.as_Static_assert.message=2", "F 2")

# ---- binary / ternary expressions --------------------------------------------------------------------------------
for n in ["and", "assign", "bitand", "bitand_assign", "bitor", "bitor_assign", "bitxor", "bitxor_assign", "comma", "div",
          "div_assign", "equal", "greater", "greater_equal", "less", "less_equal", "lshift", "lshift_assign", "minus",
          "minus_assign", "modulo", "modulo_assign", "mul", "mul_assign", "not_equal", "or", "plus", "plus_assign", "rshift",
          "rshift_assign"]:
    c = n.capitalize()
    F("make_" + n, "ipr::" + c, c, "E E OT", "lx.make_%s($1, $2, $3)" % n, "first=1 second=2 implementation=?impl", "G? 3",
      "impl:E:set:$n->op_impl = &$v")
for n in ["array_ref", "arrow", "arrow_star", "dot", "dot_star"]:
    c = n.capitalize()
    F("make_" + n, "ipr::" + c, c, "E E OT", "lx.make_%s($1, $2, $3)" % n, "first=1 second=2 base=1 member=2 implementation=?impl", "G? 3",
      "impl:E:set:$n->op_impl = &$v")
F("make_scope_ref", "ipr::Scope_ref", "Scope_ref", "E E OT", "lx.make_scope_ref($1, $2, $3)",
  "first=1 second=2 scope=1 member=2 implementation=?impl", "G? 3", "impl:E:set:$n->op_impl = &$v")
F("make_member_init", "ipr::Member_init", "Member_init", "E E OT", "lx.make_member_init($1, $2, $3)",
  "first=1 second=2 member=1 initializer=2", "G? 3")
F("make_call", "ipr::Call", "Call", "E EL OT", "lx.make_call($1, $2, $3)", "first=1 second=2 function=1 args=2 implementation=?impl", "G? 3", "impl:E:set:$n->op_impl = &$v")
for n in ["cast", "const_cast", "dynamic_cast", "reinterpret_cast", "static_cast"]:
    c = n.capitalize()
    F("make_" + n, "ipr::" + c, c, "T E", "lx.make_%s($1, $2)" % n, "first=1 second=2 expr=2 implementation=?impl", "G 1",
      "impl:E:set:$n->op_impl = &$v")
F("make_coercion", "ipr::Coercion", "Coercion", "E T T", "lx.make_coercion($1, $2, $3)",
  "first=1 second=2 expr=1 target=2 implementation=?impl", "G 3", "impl:E:set:$n->op_impl = &$v")
F("make_narrow", "ipr::Narrow", "Narrow", "E T T", "lx.make_narrow($1, $2, $3)", "first=1 second=2 expr=1 derived=2", "G 3")
F("make_pretend", "ipr::Pretend", "Pretend", "E T T", "lx.make_pretend($1, $2, $3)", "first=1 second=2 expr=1 target=2", "G 3")
F("make_widen", "ipr::Widen", "Widen", "E T T", "lx.make_widen($1, $2, $3)", "first=1 second=2 expr=1 base=2", "G 3")
F("make_qualification", "ipr::Qualification", "Qualification", "E Q T", "lx.make_qualification($1, $2, $3)",
  "first=1 expr=1 second=2 qualifiers=2", "G 3")
F("make_rewrite", "ipr::Rewrite", "Rewrite", "E E", "lx.make_rewrite($1, $2)", "first=1 second=2 source=1 target=2", "B 2")
F("make_where_nodecl", "ipr::Where", "Where", "E E", "lx.make_where($1, $2)", "first=1 second=2 main=1 attendant=2", "B 1")
F("make_where", "ipr::Where", "Where", "R", "lx.make_where($1)", "first=@result main=@result", "BL result",
  "result:E:set:$n->result = &$v")
F("make_binary_fold", "ipr::Binary_fold", "Binary_fold", "CAT E E OT", "lx.make_binary_fold($1, $2, $3, $4)",
  "operation=1 first=2 second=3 implementation=?impl", "G? 4", "impl:E:set:$n->op_impl = &$v")
F("make_instantiation", "ipr::Instantiation", "Instantiation", "E SUBST", "lx.make_instantiation($1, *$2)",
  "pattern=1 substitution=2 instance=?result", "BL result", "result:E:set:$n->result = &$v")
F("make_new", "ipr::New", "New", "OEL CTOR OT", "lx.make_new($1, $2, $3)",
  "first=1 placement=1 second=2 initializer=2 global_requested=#0 implementation=?impl", "G? 3", "impl:E:set:$n->op_impl = &$v")
F("make_conditional", "ipr::Conditional", "Conditional", "E E E OT", "lx.make_conditional($1, $2, $3, $4)",
  "first=1 second=2 third=3 condition=1 then_expr=2 else_expr=3 implementation=?impl", "G? 4", "impl:E:set:$n->op_impl = &$v")
F("make_mapping", "ipr::Mapping", "Mapping", "R LVL", "lx.make_mapping($1, $2)", "parameters.level=2 result=@body", "@typing",
  "body:E:set:$n->body = &$v|typing:T:set:$n->typing = &$v")
F("make_lambda", "ipr::Lambda", "Lambda", "R LVL", "lx.make_lambda($1, $2)",
  "parameters.level=2 result=@body target=?value_type requirement=?decl_constraint eh_specification=?eh attributes=[] captures=[] specifiers=#0",
  "N", "body:E:set:$n->body = &$v|value_type:T:set:$n->value_type = &$v|decl_constraint:E:set:$n->decl_constraint = &$v|eh:E:set:$n->eh = &$v")
F("make_requires", "ipr::Requires", "Requires", "R LVL", "lx.make_requires($1, $2)", "parameters.level=2 body=[]", "F 2")

# ---- statements ----------------------------------------------------------------------------------------------
F("make_break", "ipr::Break", "Break", "", "lx.make_break()", "from=@stmt", "F 1", "stmt:ST:set:$n->stmt = &$v")
F("make_continue", "ipr::Continue", "Continue", "", "lx.make_continue()", "iteration=@stmt", "F 1", "stmt:ST:set:$n->stmt = &$v")
F("make_block", "ipr::Block", "Block", "R OT", "lx.make_block($1, $2)", "handlers=^new_handler.1 body=*stmts", "G? 2",
  "stmts:E:push:$n->add_stmt($v)")
F("new_handler", "ipr::Handler", "Handler", "BLK N T",
  "const_cast<impl::Block&>(dynamic_cast<const impl::Block&>($1)).new_handler($2, $3)",
  "exception.name=2 exception.type=3 exception.initializer=0 body.handlers=[] body.body=*stmts", "@btype",
  "btype:T:set:$n->body().typing = &$v|stmts:E:push:$n->body().add_stmt($v)")
F("make_ctor_body", "ipr::Ctor_body", "Ctor_body", "EL BLK", "lx.make_ctor_body($1, $2)", "first=1 second=2 inits=1 block=2", "N")
F("make_expr_stmt", "ipr::Expr_stmt", "Expr_stmt", "E", "lx.make_expr_stmt($1)", "operand=1 expr=1", "B 1")
F("make_goto", "ipr::Goto", "Goto", "E", "lx.make_goto($1)", "operand=1 target=1", "B 1")
F("make_return", "ipr::Return", "Return", "E", "lx.make_return($1)", "operand=1 value=1", "N")
for n, c in [("do", "Do"), ("while", "While"), ("switch", "Switch")]:
    F("make_" + n, "ipr::" + c, c, "", "lx.make_%s()" % n, "first=@control second=@stmt condition=@control body=@stmt", "BL stmt",
      "control:E:set:$n->control = &$v|stmt:E:set:$n->stmt = &$v")
F("make_if", "ipr::If", "If", "E E", "lx.make_if($1, $2)", "first=1 second=2 third=0 condition=1 consequence=2 alternative=0", "N")
F("make_if_else", "ipr::If", "If", "E E E", "lx.make_if($1, $2, $3)",
  "first=1 second=2 third=3 condition=1 consequence=2 alternative=3", "N")
F("make_labeled_stmt", "ipr::Labeled_stmt", "Labeled_stmt", "E E", "lx.make_labeled_stmt($1, $2)",
  "first=1 second=2 label=1 stmt=2", "B 2")
F("make_for", "ipr::For", "For", "", "lx.make_for()", "initializer=@init condition=@cond increment=@inc body=@stmt", "BL stmt",
  "init:E:set:$n->init = &$v|cond:E:set:$n->cond = &$v|inc:E:set:$n->inc = &$v|stmt:ST:set:$n->stmt = &$v")
F("make_for_in", "ipr::For_in", "For_in", "", "lx.make_for_in()", "variable=@var sequence=@seq body=@stmt", "BL stmt",
  "var:V:set:$n->var = &$v|seq:E:set:$n->seq = &$v|stmt:ST:set:$n->stmt = &$v")

# ---- directives ------------------------------------------------------------------------------------------------
F("make_specifiers_spread", "ipr::Specifiers_spread", "Specifiers_spread", "", "lx.make_specifiers_spread()",
  "phases=#240 targets=[] specifiers=#0", "N")
F("make_structured_binding", "ipr::Structured_binding", "Structured_binding", "", "lx.make_structured_binding()",
  "phases=#240 names=*ids bindings=*decl_seq initializer=@init specifiers=#0 mode=#0", "N",
  "init:E:set:$n->init = &$v|ids:I:push:$n->ids.push_back(&$v)|decl_seq:D:push:$n->decl_seq.push_back(&$v)")
F("make_using_directive", "ipr::Using_directive", "Using_directive", "SC T", "lx.make_using_directive($1, $2)",
  "nominated_scope=1 phases=#240", "G 2")
F("make_phased_evaluation", "ipr::Phased_evaluation", "Phased_evaluation", "E PH", "lx.make_phased_evaluation($1, $2)",
  "expression=1 phases=2", "B 1")
F("make_pragma", "ipr::Pragma", "Pragma", "", "lx.make_pragma()", "phases=#-1 operand=[] incantation=[]", "N")

# ---- generative types ------------------------------------------------------------------------------------------------
F("make_class", "ipr::Class", "Class", "R", "lx.make_class($1)", "bases=[] members=[] name=@id", "F 23", "id:N:set:$n->id = &$v")
F("make_union", "ipr::Union", "Union", "R", "lx.make_union($1)", "members=[] name=@id", "F 24", "id:N:set:$n->id = &$v")
F("make_namespace", "ipr::Namespace", "Namespace", "R", "lx.make_namespace($1)", "members=[] name=@id", "F 26", "id:N:set:$n->id = &$v")
F("make_closure", "ipr::Closure", "Closure", "R", "lx.make_closure($1)", "members=[] name=@id", "F 23", "id:N:set:$n->id = &$v")
F("make_enum", "ipr::Enum", "Enum", "R EK", "lx.make_enum($1, $2)", "kind=2 base=?underlying members=[] name=@id", "F 25",
  "underlying:T:set:$n->underlying = &$v|id:N:set:$n->id = &$v")

# ---- declarations (entered into the scope of a sub-region; master/decl-set/lookup are C07's) -------------------------------------
DECL_LINKS = "lexreg:R:set:$n->lexreg = &$v|home:R:set:$n->decl_data.master_data->home = &$v|link:LNK:set:$n->decl_data.master_data->langlinkage = &$v"
HOME_LINKS = "home:R:set:$n->decl_data.master_data->home = &$v|link:LNK:set:$n->decl_data.master_data->langlinkage = &$v"
F("decl_var", "ipr::Var", "Var", "N T", "pool_sub->declare_var($1, $2)",
  "name=1 initializer=?init lexical_region=@lexreg home_region=@home linkage=@link specifiers=#0 definition=0", "G 2",
  "init:E:set:$n->init = &$v|" + DECL_LINKS)
F("decl_field", "ipr::Field", "Field", "N T", "pool_sub->declare_field($1, $2)",
  "name=1 initializer=?init lexical_region=@home home_region=@home linkage=@link specifiers=#0", "G 2", "init:E:set:$n->init = &$v|" + HOME_LINKS)
F("decl_bitfield", "ipr::Bitfield", "Bitfield", "N T", "pool_sub->declare_bitfield($1, $2)",
  "name=1 initializer=?init precision=@length lexical_region=@home home_region=@home linkage=@link specifiers=#0", "G 2",
  "init:E:set:$n->init = &$v|length:E:set:$n->length = &$v|" + HOME_LINKS)
F("decl_typedecl", "ipr::Typedecl", "Typedecl", "N T", "pool_sub->declare_type($1, $2)",
  "name=1 initializer=?init lexical_region=@lexreg home_region=@home linkage=@link specifiers=#0 definition=0", "G 2",
  "init:T:set:$n->init = &$v|" + DECL_LINKS)
F("decl_alias", "ipr::Alias", "Alias", "N E", "pool_sub->scope.make_alias($1, $2)",
  "name=1 initializer=2 lexical_region=@home home_region=@home linkage=@link specifiers=#0", "B 2", HOME_LINKS)
F("decl_fundecl", "ipr::Fundecl", "Fundecl", "N FN", "pool_sub->declare_fun($1, $2)",
  "name=1 parameters=via:map:pl1 mapping=?map initializer=?map lexical_region=@lexreg home_region=@home linkage=@link specifiers=#0 definition=?def",
  "G 2",
  "map:MAP:set:static_cast<std::variant<impl::Parameter_list*, impl::Mapping*>&>($n->data) = const_cast<impl::Mapping*>(dynamic_cast<const impl::Mapping*>(&$v))"
  "|def:FD:set:$n->decl_data.master_data->def = &$v|" + DECL_LINKS)
F("decl_primary_template", "ipr::Template", "Template", "N FA", "pool_sub->declare_primary_template($1, $2)",
  "name=1 mapping=! primary_template=self specializations=[] lexical_region=@lexreg home_region=@home linkage=@link specifiers=#0 definition=0",
  "G 2", DECL_LINKS)
F("decl_secondary_template", "ipr::Template", "Template", "N FA", "pool_sub->declare_secondary_template($1, $2)",
  "name=1 mapping=! primary_template=! specializations=[] lexical_region=@lexreg home_region=@home linkage=@link specifiers=#0 definition=0",
  "G 2", DECL_LINKS)

# ---- declarator forms, attributes, captures, tokens (not nodes: iface given, category "-") ---------------------------------------
F("make_monadic_constraint", "ipr::cxx_form::Constraint::Monadic", "-", "I", "forms().make_monadic_constraint($1)", "scope=0 concept_name=1", "-")
F("make_monadic_constraint_s", "ipr::cxx_form::Constraint::Monadic", "-", "E I", "forms().make_monadic_constraint($1, $2)", "scope=1 concept_name=2", "-")
F("make_polyadic_constraint", "ipr::cxx_form::Constraint::Polyadic", "-", "I", "forms().make_polyadic_constraint($1)",
  "scope=0 concept_name=1 trailing_arguments=*args", "-", "args:E:push:$n->args.push_back(&$v)")
F("make_polyadic_constraint_s", "ipr::cxx_form::Constraint::Polyadic", "-", "E I", "forms().make_polyadic_constraint($1, $2)",
  "scope=1 concept_name=2 trailing_arguments=[]", "-")
F("make_simple_requirement", "ipr::cxx_form::Requirement::Simple", "-", "E", "forms().make_simple_requirement($1)", "expr=1", "-")
F("make_type_requirement", "ipr::cxx_form::Requirement::Type", "-", "N", "forms().make_type_requirement($1)", "scope=0 type_name=1", "-")
F("make_type_requirement_s", "ipr::cxx_form::Requirement::Type", "-", "E N", "forms().make_type_requirement($1, $2)", "scope=1 type_name=2", "-")
F("make_compound_requirement", "ipr::cxx_form::Requirement::Compound", "-", "E", "forms().make_compound_requirement($1)",
  "expr=1 constraint=0 nothrow=#0", "-")
F("make_nested_requirement", "ipr::cxx_form::Requirement::Nested", "-", "E", "forms().make_nested_requirement($1)", "condition=1", "-")
F("make_pointer_indirector", "ipr::cxx_form::Indirector::Pointer", "-", "Q", "forms().make_pointer_indirector($1)", "qualifiers=1 attributes=[]", "-")
F("make_reference_indirector", "ipr::cxx_form::Indirector::Reference", "-", "RF", "forms().make_reference_indirector($1)", "flavor=1 attributes=[]", "-")
F("make_member_indirector", "ipr::cxx_form::Indirector::Member", "-", "E Q", "forms().make_member_indirector($1, $2)", "scope=1 qualifiers=2 attributes=[]", "-")
F("make_unqualified_id_species", "ipr::cxx_form::Species_declarator::Unqualified_id", "-", "", "forms().make_unqualified_id_species()", "name=0 suffix=[] attributes=[]", "-")
F("make_unqualified_id_species_n", "ipr::cxx_form::Species_declarator::Unqualified_id", "-", "N", "forms().make_unqualified_id_species($1)", "name=1 suffix=[] attributes=[]", "-")
F("make_pack_species", "ipr::cxx_form::Species_declarator::Pack", "-", "", "forms().make_pack_species()", "name=0 suffix=[] attributes=[]", "-")
F("make_pack_species_n", "ipr::cxx_form::Species_declarator::Pack", "-", "I", "forms().make_pack_species($1)", "name=1 suffix=[] attributes=[]", "-")
F("make_qualified_id_species", "ipr::cxx_form::Species_declarator::Qualified_id", "-", "E N", "forms().make_qualified_id_species($1, $2)", "scope=1 member=2 suffix=[] attributes=[]", "-")
F("make_parenthesized_species", "ipr::cxx_form::Species_declarator::Parenthesized", "-", "", "forms().make_parenthesized_species()", "suffix=[]", "-")
F("make_function_morphism", "ipr::cxx_form::Morphism::Function", "-", "R LVL", "forms().make_function_morphism($1, $2)",
  "parameters.level=2 throws=?eh_spec qualifiers=#0 binding_mode=#0 attributes=[]", "-", "eh_spec:E:set:$n->eh_spec = &$v")
F("make_array_morphism", "ipr::cxx_form::Morphism::Array", "-", "", "forms().make_array_morphism()", "bound=?array_bound attributes=[]", "-",
  "array_bound:E:set:$n->array_bound = &$v")
F("make_term_declarator", "ipr::cxx_form::Declarator::Term", "-", "", "forms().make_term_declarator()", "indirectors=[]", "-")
F("make_targeted_declarator", "ipr::cxx_form::Declarator::Targeted", "-", "SPEC T", "forms().make_targeted_declarator(*$1, $2)", "species=1 target=2", "-")
F("make_classic_provision", "ipr::cxx_form::Classic_provision", "-", "EI", "forms().make_classic_provision(*$1)", "initializer=1", "-")
F("make_parenthesized_provision", "ipr::cxx_form::Parenthesized_provision", "-", "E", "forms().make_parenthesized_provision($1)", "initializer=1", "-")
F("make_braced_provision", "ipr::cxx_form::Braced_provision", "-", "", "forms().make_braced_provision()", "elements=[]", "-")
F("make_designated_provision", "ipr::cxx_form::Designated_list_provision", "-", "", "forms().make_designated_provision()", "elements=[]", "-")
F("make_field_designator", "ipr::cxx_form::Field_designator", "-", "I", "forms().make_field_designator($1)", "name=1", "-")
F("make_slot_designator", "ipr::cxx_form::Slot_designator", "-", "E", "forms().make_slot_designator($1)", "index=1", "-")
F("make_basic_attribute", "ipr::BasicAttribute", "-", "TOK", "attrs.make_basic_attribute(*$1)", "operand=1 token=1", "-")
F("make_scoped_attribute", "ipr::ScopedAttribute", "-", "TOK TOK", "attrs.make_scoped_attribute(*$1, *$2)", "first=1 second=2 scope=1 member=2", "-")
F("make_labeled_attribute", "ipr::LabeledAttribute", "-", "TOK ATTR", "attrs.make_labeled_attribute(*$1, *$2)", "first=1 second=2 label=1 attribute=2", "-")
F("make_called_attribute", "ipr::CalledAttribute", "-", "ATTR ATTRS", "attrs.make_called_attribute(*$1, *$2)", "first=1 function=1 second=el:2 arguments=el:2", "-")
F("make_expanded_attribute", "ipr::ExpandedAttribute", "-", "TOK ATTR", "attrs.make_expanded_attribute(*$1, *$2)", "first=1 second=2 expander=1 operand=2", "-")
F("make_factored_attribute", "ipr::FactoredAttribute", "-", "TOK ATTRS", "attrs.make_factored_attribute(*$1, *$2)", "first=1 factor=1 second=el:2 terms=el:2", "-")
F("make_elaborated_attribute", "ipr::ElaboratedAttribute", "-", "E", "attrs.make_elaborated_attribute($1)", "operand=1 elaboration=1", "-")
F("default_capture", "ipr::Capture_specification::Default", "-", "BM", "caps.default_capture($1)", "mode=1", "-")
F("implicit_object_capture", "ipr::Capture_specification::Implicit_object", "-", "BM", "caps.implicit_object_capture($1)", "how=1", "-")
F("enclosing_local_capture", "ipr::Capture_specification::Enclosing_local", "-", "D BM", "caps.enclosing_local_capture($1, $2)",
  "declaration=1 mode=2 name=idnm:1", "-")
F("binding_capture", "ipr::Capture_specification::Binding", "-", "I E BM", "caps.binding_capture($1, $2, $3)", "name=1 initializer=2 mode=3", "-")
F("expansion_capture", "ipr::Capture_specification::Expansion", "-", "NAMED", "caps.expansion_capture(*$1)", "what=1", "-")
# (Lexicon::make_token and expr_factory::make_annotation are declared but not defined by the library: tokens are built
#  with the public constructor of impl::Token, annotations cannot be built at all)
F("new_token", "ipr::Token", "-", "S TV TC", "new_token($1, 7, 8, 9, $2, $3)",
  "lexeme.spelling=1 value=2 category=3 lexeme.locus.line=#7 lexeme.locus.column=#8 lexeme.locus.file=#9", "-")
F("make_using_declaration_1", "ipr::Using_declaration", "Using_declaration", "SR MODE", "lx.make_using_declaration($1, $2)",
  "phases=#240 designators.size=#1 designator0.path=1 designator0.mode=2", "N")
F("make_using_declaration", "ipr::Using_declaration", "Using_declaration", "", "lx.make_using_declaration()",
  "phases=#240 designators.size=#0", "N")


# ---------------------------------------------------------------------------------------------------------------
def parse_src(src):
    """-> TLA+ record describing where the value of an accessor comes from"""
    if src.startswith("#"):
        return '[k |-> "const", v |-> %s, l |-> ""]' % src[1:]
    if src.startswith("ty:"):
        return '[k |-> "tyof", v |-> %s, l |-> ""]' % src[3:]
    if src.startswith("nm:"):
        return '[k |-> "nameof", v |-> %s, l |-> ""]' % src[3:]
    if src.startswith("idnm:"):          # the name of the operand, where an identifier is required: refused if it is not one
        return '[k |-> "identof", v |-> %s, l |-> ""]' % src[5:]
    if src.startswith("el:"):
        return '[k |-> "elems", v |-> %s, l |-> ""]' % src[3:]
    if src.startswith("@"):
        return '[k |-> "checked", v |-> 0, l |-> "%s"]' % src[1:]
    if src.startswith("?"):
        return '[k |-> "optional", v |-> 0, l |-> "%s"]' % src[1:]
    if src.startswith("*"):
        return '[k |-> "pushed", v |-> 0, l |-> "%s"]' % src[1:]
    if src.startswith("via:"):
        _, link, pool = src.split(":")
        return '[k |-> "via", v |-> %d, l |-> "%s"]' % (POOL_ID[pool], link)
    if src.startswith("^"):
        f, i = src[1:].split(".")
        return '[k |-> "made_with", v |-> %s, l |-> "%s"]' % (i, f)
    if src == "!":
        return '[k |-> "refused", v |-> 0, l |-> ""]'
    if src == "self":
        return '[k |-> "self", v |-> 0, l |-> ""]'
    if src == "[]":
        return '[k |-> "empty", v |-> 0, l |-> ""]'
    if src == "0":
        return '[k |-> "absent", v |-> 0, l |-> ""]'
    return '[k |-> "arg", v |-> %s, l |-> ""]' % src


def parse_type(t):
    p = t.split()
    if p[0] == "G":
        return '[k |-> "given", v |-> %s, l |-> ""]' % p[1]
    if p[0] == "G?":
        return '[k |-> "given_opt", v |-> %s, l |-> ""]' % p[1]
    if p[0] == "F":
        return '[k |-> "fixed", v |-> %s, l |-> ""]' % p[1]
    if p[0] == "B":
        return '[k |-> "borrow", v |-> %s, l |-> ""]' % p[1]
    if p[0] == "BL":
        return '[k |-> "borrow_link", v |-> 0, l |-> "%s"]' % p[1]
    if p[0] == "PROD":
        return '[k |-> "product", v |-> 0, l |-> "%s"]' % p[1]
    if p[0].startswith("@"):
        return '[k |-> "checked", v |-> 0, l |-> "%s"]' % p[0][1:]
    if p[0] == "N":
        return '[k |-> "never", v |-> 0, l |-> ""]'
    return '[k |-> "none", v |-> 0, l |-> ""]'


def gen_tla():
    out = ["---------------------------- MODULE IprNodesTable ----------------------------",
           "(* GENERATED by tools/gen_nodes.py from the node table (see that file for the notation). *)",
           "EXTENDS Naturals, Integers, Sequences",
           "PoolFirst == %d" % (NCONST + 1),
           "PoolLast == %d" % (NCONST + len(POOL)),
           "FactoryNames == {%s}" % ", ".join('"%s"' % r["op"] for r in ROWS)]
    # candidates per sort
    out.append("Cand == [%s]" % ", ".join("%s |-> <<%s>>" % (s, ", ".join(map(str, v))) for s, v in sorted(CAND.items())))
    # facts about the pool
    ty = {POOL_ID[n]: f["ty"] for n, _, _, f in POOL if "ty" in f}
    ty.update({12: 22, 3: 22, 2: 22, 1: 22, 23: 22, 24: 22, 25: 22, 26: 22})
    out.append("PoolTypeOf == [i \\in {%s} |-> CASE %s]" % (
        ", ".join(map(str, sorted(ty))), " [] ".join("i = %d -> %d" % (k, v) for k, v in sorted(ty.items()))))
    nm = {POOL_ID[n]: POOL_ID[f["nm"]] for n, _, _, f in POOL if "nm" in f}
    out.append("PoolNameOf == [i \\in {%s} |-> CASE %s]" % (
        ", ".join(map(str, sorted(nm))), " [] ".join("i = %d -> %d" % (k, v) for k, v in sorted(nm.items()))))
    out.append("PoolIdentifiers == {%s}" % ", ".join(str(POOL_ID[n]) for n, so, _, _ in POOL if "I" in so.split()))
    el = {POOL_ID[n]: [POOL_ID[x] for x in f["el"]] for n, _, _, f in POOL if "el" in f}
    out.append("PoolElemsOf == [i \\in {%s} |-> CASE %s]" % (
        ", ".join(map(str, sorted(el))), " [] ".join("i = %d -> <<%s>>" % (k, ", ".join(map(str, v))) for k, v in sorted(el.items()))))
    rows = []
    for r in ROWS:
        acc = ", ".join("%s |-> %s" % (a.split("=")[0].replace(".", "_"), parse_src(a.split("=", 1)[1])) for a in r["acc"])
        links = ", ".join('[l |-> "%s", sort |-> "%s", kind |-> "%s"]' % tuple(l.split(":")[:3]) for l in r["links"])
        rows.append('  %s |-> [cat |-> "%s", params |-> <<%s>>, acc |-> %s, type |-> %s, links |-> <<%s>>]' % (
            r["op"], r["cat"], ", ".join('"%s"' % p for p in r["params"]),
            "[" + acc + "]" if acc else "<<>>", parse_type(r["type"]), links))
    out.append("Factory == [\n" + ",\n".join(rows) + "\n]")
    out.append("=============================================================================")
    open(os.path.join(VERIF, "spec", "IprNodesTable.tla"), "w").write("\n".join(out) + "\n")


def cxx_reader(iface_var, accname):
    """C++ expression reading accessor path a.b.c from node n"""
    parts = accname.split(".")
    expr = iface_var
    for p in parts:
        m = re.match(r"designator(\d+)$", p)
        if m:
            expr = "(*%s.designators().position(%s))" % (expr, m.group(1))
        elif p.startswith("as_"):
            expr = "dyn<ipr::%s>(%s)" % (p[3:], expr)
        elif p in ("line", "column", "file"):
            expr = "%s.%s" % (expr, p)
        elif p == "size":
            expr = "%s.size()" % expr
        else:
            expr = "%s.%s()" % (expr, p)
    return expr


def gen_cxx():
    out = ["// GENERATED by tools/gen_nodes.py -- do not edit.", ""]
    out.append("void build_pool()\n{")
    out.append("   auto& lx = w.lex;")
    for name, _, expr, _ in POOL:
        out.append("   int %s = %s; expect_id(%s, %d, \"%s\");" % (name, expr, name, POOL_ID[name], name))
    out.append("   (void)map1; (void)sr2; (void)sc2; (void)blk2; (void)st2; (void)v2; (void)p2; (void)sb2; (void)ats2; (void)sp2; (void)ei2; (void)nc2; (void)ctor2; (void)ctor1; (void)sb1; (void)ats1; (void)sp1; (void)ei1; (void)nc1; (void)st1; (void)blk1; (void)sc1; (void)sr1; (void)strB;")
    out.append("}\n")
    # make
    out.append("// returns the observation of the node built by factory `op` from argument ids `a`")
    out.append("bool make(const std::string& op, const std::vector<int>& a, Made& m)\n{\n   auto& lx = w.lex; (void)lx;")
    for r in ROWS:
        call = r["call"]
        for k, s in enumerate(r["params"]):
            call = call.replace("$%d" % (k + 1), SORTS[s].format(x="a.at(%d)" % k))
        out.append('   if (op == "%s") {' % r["op"])
        out.append("      auto&& made = %s;" % call)
        out.append("      auto* impl = ptr_of(made);")
        out.append("      const %s& n = *impl;" % r["iface"])
        out.append("      m.id = reg_any(n);")
        out.append('      m.cat = "%s";' % r["cat"])
        out.append("      m.observe = [this, &n]() {")
        out.append("         auto o = vj::Value::object();")
        if r["cat"] != "-":
            out.append('         o.set("cat", vh::cat_name(static_cast<const ipr::Node&>(n).category));')
        else:
            out.append('         o.set("cat", "-");')
        for a in r["acc"]:
            name = a.split("=")[0]
            out.append('         o.set("%s", guard([&] { return val(%s); }));' % (name.replace(".", "_"), cxx_reader("n", name)))
        if r["type"] != "-":
            out.append('         o.set("type", guard([&] { return val(n.type()); }));')
        else:
            out.append('         o.set("type", "none");')
        out.append("         return o;")
        out.append("      };")
        # links
        out.append("      m.set_link = [this, impl](const std::string& l, int v) {")
        out.append("         (void)impl; (void)v;")
        for l in r["links"]:
            lname, sort, kind, code = l.split(":", 3)
            conv = SORTS[sort].format(x="v")
            code = code.replace("$n", "impl").replace("&$v", "&" + conv).replace("$v", conv)
            out.append('         if (l == "%s") { %s; return true; }' % (lname, code))
        out.append("         return false;")
        out.append("      };")
        out.append("      return true;")
        out.append("   }")
    out.append("   return false;\n}")
    out.append("")
    out.append("struct LinkInfo { const char* name; const char* sort; const char* kind; };")
    out.append("struct FactoryInfo { const char* op; std::vector<const char*> params; std::vector<LinkInfo> links; };")
    out.append("static const std::vector<FactoryInfo>& factory_table()\n{\n   static const std::vector<FactoryInfo> t {")
    for r in ROWS:
        links = ", ".join('{"%s", "%s", "%s"}' % tuple(l.split(":")[:3]) for l in r["links"])
        out.append('      {"%s", {%s}, {%s}},' % (r["op"], ", ".join('"%s"' % p for p in r["params"]), links))
    out.append("   };\n   return t;\n}")
    out.append("static const std::map<std::string, std::vector<int>>& candidates()\n{\n   static const std::map<std::string, std::vector<int>> c {")
    for srt, v in sorted(CAND.items()):
        out.append('      {"%s", {%s}},' % (srt, ", ".join(map(str, v))))
    out.append("   };\n   return c;\n}")
    open(os.path.join(VERIF, "harness", "gen_make.inc"), "w").write("\n".join(out) + "\n")


if __name__ == "__main__":
    gen_tla()
    gen_cxx()
    print("generated %d factories, pool of %d operands (ids %d..%d)" % (len(ROWS), len(POOL), NCONST + 1, NCONST + len(POOL)))
