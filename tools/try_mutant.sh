#!/bin/sh
# usage: tools/try_mutant.sh <patch.diff | "sed:<file>:<sed-expr>"> <property> [tier]
# Runs a check against a scratch worktree of /repo with the change applied (VERIF_REPO), then removes it.
set -e
CHANGE="$1"; PID="$2"; TIER="${3:-quick}"
W=$(mktemp -d /tmp/ipr-mut.XXXXXX)
git -C /repo worktree add -q --detach "$W" HEAD
trap 'git -C /repo worktree remove --force "$W" >/dev/null 2>&1; rm -rf "$W"' EXIT
case "$CHANGE" in
  sed:*) F=$(echo "$CHANGE" | cut -d: -f2); E=$(echo "$CHANGE" | cut -d: -f3-); sed -i "$E" "$W/$F"; git -C "$W" diff --stat | tail -1 ;;
  *) git -C "$W" apply "$CHANGE" ;;
esac
VERIF_REPO="$W" "$(dirname "$0")/../bin/check" "$PID" "$TIER"
