"""Inventory of harness executables: (name, sources, build configuration)."""
HARNESSES = [
    ("unify", ["unify.cxx"], "plain"),
    ("rbtree", ["rbtree.cxx"], "plain"),
    ("specs", ["specs.cxx"], "plain"),
    ("subst", ["subst.cxx"], "plain"),
    ("make", ["make.cxx"], "plain"),
    ("visit", ["visit.cxx"], "plain"),
    ("seqs", ["seqs.cxx"], "plain"),
    ("printer", ["printer.cxx"], "plain"),
    ("ledger", ["ledger.cxx"], "plain"),
    ("threads", ["threads.cxx"], "plain"),
    ("threads", ["threads.cxx"], "tsan"),
    ("seqs", ["seqs.cxx"], "asan"),
    ("scopes", ["scopes.cxx"], "plain"),
    ("regions", ["regions.cxx"], "plain"),
    ("strings", ["strings.cxx"], "plain"),
    ("strings", ["strings.cxx"], "asan"),
]
