"""Inventory of harness executables: (name, sources, build configuration)."""
HARNESSES = [
    ("unify", ["unify.cxx"], "plain"),
]
