#!/usr/bin/env python3
"""Print the markdown table of DESIGN section 12 from seeded/*/meta.json."""
import json
import os
V = os.path.dirname(os.path.dirname(os.path.abspath(__file__)))
rows = []
for d in sorted(os.listdir(os.path.join(V, "seeded"))):
    mp = os.path.join(V, "seeded", d, "meta.json")
    if not os.path.exists(mp):
        continue
    m = json.load(open(mp))
    caught = [p for p, c in m.get("checks", {}).items() if c.get("reports_violation")]
    rows.append("| `%s` | %s | %s | %s |" % (m["id"], m["breaks"], "yes" if m.get("confirmed") else "NO", ", ".join(caught) or "—"))
print("| seeded change | breaks | confirmed | reported by (quick) |\n|---|---|---|---|")
print("\n".join(rows))
