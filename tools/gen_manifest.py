#!/usr/bin/env python3
"""Regenerate /verif/MANIFEST.json from the table below (kept in one place so it is always schema-valid)."""
import json
import os

VERIF = os.path.dirname(os.path.dirname(os.path.abspath(__file__)))

MC = "model_checking"
UNIFY_NOTE = ("Trusted: TLC, the hand-written normal forms in spec/IprUnify.tla (written from the interface "
              "documentation), the observer in harness/world.hpp (public accessors only), g++. Bounded: alphabets, "
              "depths and trace lengths listed in the evidence file.")

CLAIMED = {
    "C01": dict(
        text="TLC checks table injectivity / only-then / stability on IprUnify for every behaviour of the type-"
             "constructor alphabets up to depth 3 (quick) or 4 (thorough); every one of those behaviours is replayed "
             "into a fresh Lexicon and the identity (fresh vs. the very same node), outcome and read-back of every call "
             "are compared with the specification's prediction; seeded random histories with tree-rebalancing noise "
             "are validated line by line by the trace specification, as are focused histories (few operand coordinates, a "
             "small grid of spellings) that give one lookup table many keys sharing coordinates.",
        ref="DESIGN.md §3 C01", tech="TLA+ IprUnify: TLC behaviour enumeration replayed into the library + TLC trace validation",
        note=UNIFY_NOTE),
    "C04": dict(
        text="Same machinery as C01 on the name and atom constructors: one table keyed by normalised request, the "
             "identifiers carried by the Lexicon constants are in the table from the start (so a reserved spelling "
             "must come back as the constant's own name), value equality of linkages/conventions/transfers/logograms "
             "is predicted from spellings.",
        ref="DESIGN.md §3 C04", tech="TLA+ IprUnify: TLC behaviour enumeration replayed into the library + TLC trace validation",
        note=UNIFY_NOTE),
    "C11": dict(
        text="All sequences of up to 3 (quick) / 4 (thorough) qualification requests over all 8 qualifier subsets "
             "(including the refused empty set), alone and interleaved with pointer/reference requests, are enumerated "
             "by TLC from IprUnify (invariant QualifiedNF) and replayed; random traces validated by the trace spec.",
        ref="DESIGN.md §3 C11", tech="TLA+ IprUnify (NormQ, QualifiedNF): exhaustive TLC behaviours replayed + trace validation",
        note=UNIFY_NOTE),
    "C13": dict(
        text="The 71 process-wide constants are part of the specification's initial state (IprConst.tla, written from "
             "the documented spellings); the harness registers them in accessor order and any aliasing, wrong spelling, "
             "wrong type or wrong name shows as a mismatch of the Init event or of a read-back; every route from a "
             "spelling (26 built-in names, default, C, C++, nullptr and near misses) to a node is enumerated to depth 2-3.",
        ref="DESIGN.md §3 C13", tech="TLA+ IprConst/IprUnify: constants as initial state, routes enumerated by TLC and replayed",
        note=UNIFY_NOTE),
}

MAKE_NOTE = ("Trusted: TLC, the node table in tools/gen_nodes.py (161 factories, written from the interface documentation; "
             "the generated spec/IprNodesTable.tla is what TLC reads), harness/make.cxx + generated dispatch. Two operands per "
             "parameter sort; expr_factory::make_annotation and Lexicon::make_token are declared but undefined and not exercised; "
             "unified get_* constructors are covered under C01/C04, declarations under C07, regions under C12.")
CLAIMED.update({
    "C02": dict(
        text="IprMake.tla interprets the node table: for every factory, which argument comes back under which accessor "
             "(named aliases included), what reads as absent, and how settable links change that. TLC emits the complete sweep "
             "(every factory x every combination of candidate operands and enumerators x subsets of links) with the expected "
             "observation after each step; the replayer calls the real factory and reads every accessor. Random histories "
             "where created nodes become operands are validated by the trace spec, with re-observation of earlier nodes. The "
             "unified constructors are covered by IprUnify's read-back, declarations made through a scope (redeclarations "
             "included) by IprScopes' read-back of name, type and aliasee.",
        ref="DESIGN.md §3 C02", tech="TLA+ IprMake + generated node table: complete factory sweep from TLC replayed + trace validation",
        note=MAKE_NOTE),
    "C09": dict(
        text="Type rules of the node table (given, given-if-supplied, fixed by kind, borrowed from an operand or a link, product "
             "of the current elements, never) are evaluated by IprMake.tla for every step of the C02 sweep and of the random "
             "histories and compared with type() of the real node; built-in/compound types and constants are covered by the "
             "`ty` field of IprUnify (behaviours and recorded histories in which earlier nodes are re-read after later requests), "
             "scope/parameter-list products by IprScopes.",
        ref="DESIGN.md §3 C09", tech="TLA+ IprMake type rules: complete factory sweep replayed + trace validation",
        note=MAKE_NOTE),
    "C06": dict(
        text="IprVisitor.tla holds the Super table (category -> nearest abstract super-category, Classic in between for classic "
             "expressions), Chain and Dispatch; TLC checks the table (finite chains, exactly one sink, Classic only for classic "
             "expressions) and prints the chain per category. The harness builds an instance of every implementation class "
             "obtainable for all 159 categories (347 instances, 187 category/class pairs) and records category, the hooks "
             "accept() reaches (each of which must be handed the node itself), the number of hooks entered, the sink of a sinks-only "
             "visitor, view<K> for all K, the same with accept() entered again from inside its hook 301 levels deep, and nodes built "
             "where a destroyed node of another kind was; every "
             "instance is compared with the printed chain and validated again by the trace spec.",
        ref="DESIGN.md §3 C06", tech="TLA+ IprVisitor: per-category dispatch chains from TLC compared on one instance of every implementation class + trace validation",
        note="Trusted: TLC, the Super table transcribed from the class heads at the pinned commit (design/super-table.txt), "
             "harness/visit.cxx. The cxx_form / attribute / unit visitors are outside C06's wording and not covered."),
    "C03": dict(
        text="IprStrings.tla (R-level): per-Lexicon map word -> String, immutable content, empty and reserved words shared "
             "process-wide. TLC enumerates every sequence of 4 (quick) / 5 (thorough) intern requests over two Lexicons and 8 "
             "words, replayed with identity and content of every String compared after every step. Arena.tla (I-level) is "
             "checked exhaustively with scaled constants and, with the real constants, generates every sequence of 3 (quick) / 4 "
             "(thorough) lengths around 'exactly fills the pool' and 'too long for any pool', replayed and validated by the trace spec; "
             "every second request for a word is preceded by a request for a name or atom of that spelling. A recorded sweep (all reserved words and near "
             "misses, all byte values, NULs, unterminated sources, roll-over/oversize lengths, random history with "
             "re-observation) is validated line by line, once plain and once under ASan/UBSan.",
        ref="DESIGN.md §3 C03", tech="TLA+ IprStrings/Arena: exhaustive TLC behaviours replayed, I-level boundary generation, trace validation (also under ASan)",
        note="Trusted: TLC, the reserved-word list in spec/IprKnownWords.tla (a lower bound), harness/strings.cxx, ASan for "
             "invalidation. Words >64 bytes are compared by length + FNV-1a/64. Equal-hash bucket chains are not constructible."),
    "C07": dict(
        text="IprScopes.tla: a scope is the sequence of declarations entered; elements, product type, lookup, selection, master, "
             "declaration-set and position are derived operators. TLC enumerates all admissible declaration sequences of four "
             "jobs (var/fundecl depth 4-5; seven declaration kinds; two scopes; parameter list + enumeration + base list) and "
             "prints the full predicted observation of the scope after every step (including lookups of undeclared names and "
             "selection by every type); each behaviour is replayed and compared. Random histories over 12 names x 6 types in "
             "five scopes are validated by the trace spec with sampled lookups.",
        ref="DESIGN.md §3 C07", tech="TLA+ IprScopes: exhaustive TLC behaviours with derived observations replayed + trace validation",
        note="Trusted: TLC, the derived operators of spec/IprScopes.tla, harness/scopes.cxx (public interface only; scopes reached "
             "through impl members where the interface has no route). Handler regions are covered under C12."),
    "C08": dict(
        text="RBTree.tla transcribes descend/insert/fix-up/rotations (I-level) and states the red-black search-tree "
             "predicates (R-level). TLC checks I=>R for all insertion orders over 7 (quick) / 9 (thorough) keys, enumerates "
             "every sequence of length 6 over 5 keys (quick) / 7 over 7 (thorough) with the predicted shape after each "
             "insertion; both tree flavours are driven with each sequence and the real shape (read through a class derived "
             "from the protected core) must equal the prediction, otherwise it is judged by the R-level trace spec; long "
             "sorted/reversed/zig-zag/random/duplicate sequences with integer, address, lexicographic and 64-bit-difference comparators are "
             "validated by RBTreeTrace.",
        ref="DESIGN.md §3 C08", tech="TLA+ RBTree: exhaustive insertion sequences replayed with shape comparison + R-level trace validation",
        note="Trusted: TLC, the R-level predicates in spec/RBTree.tla, the shape reader in harness/rbtree.cxx. Bounded: "
             "sequence length/keys as stated; long traces validate shapes at sampled steps (every 16th/60th insertion beyond the dense prefix)."),
    "C10": dict(
        text="IprSpecifiers.tla models a specifier/qualifier set as the set of its basic names. TLC reaches every subset of "
             "the basis (quick: two overlapping 10-name halves and all 8 qualifier sets; thorough: all 2^18) and prints the "
             "answers the interface must give (decomposition; | & ^ implies against 23 probe sets); the replayer evaluates the "
             "real Lexicon on each. Random register machines, all 20 named accessors and refused names are validated by the "
             "trace spec.",
        ref="DESIGN.md §3 C10", tech="TLA+ IprSpecifiers: TLC enumerates all subsets with required answers, replayed; register-machine trace validation",
        note="Trusted: TLC, the basis list in spec/IprSpecifiers.tla (from the documented accessors), harness/specs.cxx. "
             "Pairs of subsets are covered against 23 probes per subset, not all 2^36 pairs."),
    "C12": dict(
        text="IprRegions.tla: every call that opens a region or adds a member appends a fixed list of entities (construct, "
             "region(s), members) with enclosing region, owner, global flag, outward-walk length, bound declarations, home "
             "region, level and position; invariants WellFounded, OnlyRootGlobal, OwnerIsEntity, HandlerShape, Positions. TLC "
             "enumerates every sequence of 3 calls over all 19 operations (units and modules included) and deeper sequences "
             "of nesting/member operations; each is replayed and every created entity compared. Random nestings are "
             "validated by the trace spec.",
        ref="DESIGN.md §3 C12", tech="TLA+ IprRegions: exhaustive TLC behaviours replayed + trace validation",
        note="Trusted: TLC, spec/IprRegions.tla, harness/regions.cxx. Owners the property does not prescribe (sub-regions, "
             "base lists, requires/where/declarator parameter regions, handler parameter regions) and the home region of an "
             "exception parameter are not observed."),
    "C14": dict(
        text="Two parts. (1) IprSeq.tla: positional access at 0..size+2 and SIZE_MAX, iteration and begin-to-end distance for a "
             "sequence holding n appended elements; TLC prints the expected observation after each append and it is replayed on "
             "all 25 sequence implementations/routes the library ships (every size 0..36 quick / 0..70 thorough; positions 2^k + j far "
             "beyond the bounds; the newest element first, positions in descending order). IprIter.tla: one iterator object as a state "
             "machine whose state is its position, put through every sequence of 4 (quick) / 5 (thorough) operations on every "
             "implementation; recorded runs "
             "(also under ASan/UBSan) and Optional::get on empty and valid values go through the trace spec. (2) The IprMake "
             "sweep restricted to refusals: every accessor of every factory-built node in every subset of its settable links "
             "must be refused with std::logic_error while the link is unset.",
        ref="DESIGN.md §3 C14", tech="TLA+ IprSeq + IprIter + IprMake: expected outcomes from TLC replayed on every sequence implementation and every link state; trace validation under ASan/UBSan",
        note="Trusted: TLC, spec/IprSeq.tla, the link columns of the node table, harness/seqs.cxx + make.cxx; undefined behaviour is "
             "only visible as a sanitizer report or crash (terminal trace event). Declarations' checked links (home region, "
             "linkage, lexical region) are exercised only through the statements and expressions of the node table."),
    "C15": dict(
        text="IprSeqTrace.tla states the defining equations: empty = (size = 0), begin/end/position and the helper size / "
             "operator[] of Product, Sum, Expr_list, Scope, Parameter_list against positional access; try_block = (handlers # 0); "
             "Udt scope/members, Block body, Template parameters/result, default_value = initializer, Type::linkage = "
             "transfer().linkage, Scope::size; and for the six equality operators, eq[i][j] = (spelling i = spelling j) on all "
             "pairs of six values with != its negation. The harness logs the derived result together with the primitives and TLC "
             "evaluates the equation; sequence observations are also generated by TLC and replayed on all implementations, and "
             "IprIter.tla (an iterator's state is its position; ++, --, postfix forms, *, ->, copy, == begin()/end()) is replayed as "
             "every operation sequence of depth 4 (quick) / 5 (thorough) on every implementation.",
        ref="DESIGN.md §3 C15", tech="TLA+ IprSeq + IprIter: defining equations evaluated by TLC on recorded derived/primitive pairs + replayed sequence observations",
        note="Trusted: TLC, spec/IprSeqTrace.tla, harness/seqs.cxx. Identity comparisons (same object returned) are computed by the "
             "harness and logged as a boolean."),
    "C16": dict(
        text="IprSubst.tla: substitutions as partial functions. TLC enumerates all make/bind/apply sequences of length 4 "
             "(quick) / 5 (thorough) over 3 parameters from two parameter lists and 2 values; each is replayed and every "
             "result compared; random histories over 6 parameters validated by the trace spec.",
        ref="DESIGN.md §3 C16", tech="TLA+ IprSubst: exhaustive TLC behaviours replayed + trace validation",
        note="Trusted: TLC, harness/subst.cxx; expressions identified by address."),
    "C17": dict(
        text="IprPrinter.tla states the relations: the text of a program under given options is a function of the program "
             "(SameText), printing leaves the graph untouched, and the text with print_locations is the text without, woven "
             "with the specification's location prefix F<file>:<line>[:<column>]<space> at every located statement (Weave). TLC "
             "enumerates every statement tree of nesting depth 2 over the statement constructs; each is built in two Lexicons "
             "(one with unrelated allocations and near-miss type requests between all steps, one program in four at the edge of a "
             "string storage block), once more in a Lexicon where it is printed before its last statement is added, printed three "
             "times and with locations on/off (handlers and their blocks included; ten-digit numbers); IprPrinterTrace "
             "judges every event.",
        ref="DESIGN.md §3 C17", tech="TLA+ IprPrinter: TLC-enumerated programs built twice and printed; relational trace validation",
        note="Trusted: TLC, spec/IprPrinter*.tla, harness/printer.cxx (its search for where the prefixes sit is only a witness: "
             "TLC re-computes the woven text). Programs are statement trees; no byte-exact reference rendering is claimed."),
    "C18": dict(
        text="IprPrinter.tla: a print either completes or is refused with std::logic_error; the control state [indent, base, "
             "flags, fill, width, precision] is as found (indentation only for completed prints), control bytes appear only if "
             "spelled, numbers are decimal numerals (Dec). Checked on every statement tree of depth 2 from TLC, on one instance of "
             "every implementation class through all four entry points (each print in a forked child with a time limit: a crash "
             "or time-out is a terminal event), on all 256 single-byte literals alone and next to \\1/\\2, and on all five "
             "delimiters, each followed by a position and a nesting level on the same stream; every nesting construct repeated and "
             "mixed to depths 1..90 and blocks printed at a pending indentation of 1..4097.",
        ref="DESIGN.md §3 C18", tech="TLA+ IprPrinter: control-state/outcome/number rules validated by TLC on a complete print sweep + TLC-enumerated statement trees",
        note="Trusted: TLC, spec/IprPrinter*.tla, harness/printer.cxx; default 8 MiB stack, 20 s per print."),
    "C05": dict(
        text="Decided with the trace specifications of IprMake, IprUnify and IprStrings on histories recorded for this purpose: "
             "220 (quick) / 600 (thorough) calls over all 161 generative factories with unrelated growth of every store between "
             "two steps; after every step every node returned so far is re-read through all its accessors, and the set of nodes "
             "that read differently must equal the set whose expected observation changed in the specification (only explicit "
             "link settings and appends do that: OnlyClientChanges / ChangedSince); every make_ result must be a fresh identity; "
             "unified nodes and Strings are re-read at random later points (Stable, ContentStable).",
        ref="DESIGN.md §3 C05", tech="TLA+ IprMake/IprUnify/IprStrings trace validation of histories with whole-graph re-observation after every step",
        note="Trusted: TLC, the three trace specs, the observers. Identity = address. 'Stays valid' (no dangling storage) is "
             "AddressSanitizer's observation (strings in quick; factory histories under ASan in thorough)."),
    "C19": dict(
        text="IprLedger.tla: the allocation ledger (Begin, Alloc of a fresh identity, Free of an outstanding one, End only when "
             "the ledger is back to its state at Begin). Twelve construction histories (up to the whole zoo built and printed, "
             "string pools rolled over, two interleaved Lexicons, tables of 300 entries in extreme key orders, one name declared as "
             "every kind of declaration in every order) each run three times in one process with the global allocation "
             "functions replaced; runs 2 and 3 are validated by IprLedgerTrace allocation by allocation (<= 400 allocations) or "
             "by counters. IprLedgerMC is checked tight and with a forgetful owner (must violate) as a vacuity guard. ASan+LSan "
             "runs of this recorder and of other recorders contribute their verdict as terminal events, and so do runs of six recorders "
             "(plain build) under valgrind memcheck (reads of storage no live object has written, leaks).",
        ref="DESIGN.md §3 C19", tech="TLA+ IprLedger: allocation-ledger trace validation (operator new/delete replaced) + sanitizer verdicts as terminal events",
        note="Trusted: TLC, spec/IprLedger*.tla, harness/ledger.cxx (ledger of operator new/delete), ASan/LSan for dead-storage "
             "accesses. Histories are fixed scenarios plus seeds, not enumerated."),
    "C20": dict(
        text="IprThreads.tla: N processes with private tables obtain what they would obtain alone on every interleaving (TLC, 2-3 "
             "processes), and a shared table violates it (vacuity guard). Runs with 2/4/8/16 threads, each building, declaring and "
             "printing in its own Lexicon from a common start with random yields; every thread's trace is validated against the "
             "sequential IprUnify specification (IprThreadsTrace), the Lexicons of a round stay alive until the join and must share "
             "nothing but the constants; half of the runs under ThreadSanitizer, whose report is a terminal event.",
        ref="DESIGN.md §3 C20", tech="TLA+ IprThreads/IprUnify: per-thread trace validation against the sequential spec + isolation event + TSan verdict as terminal event",
        note="Trusted: TLC, the sequential trace spec, harness/threads.cxx, ThreadSanitizer on the schedules that occurred (schedules "
             "of the C++ code are sampled, not enumerated)."),
})

ALL = ["C%02d" % i for i in range(1, 21)]
NOT_YET = "check not built yet in this round; see DESIGN.md §8 for the order of construction"


def main():
    checks = []
    for pid in ALL:
        if pid not in CLAIMED:
            continue
        c = CLAIMED[pid]
        checks.append({
            "property_id": pid,
            "quick_cmd": "bin/check %s quick" % pid,
            "thorough_cmd": "bin/check %s thorough" % pid,
            "evidence_file": "/verif/evidence/%s.json" % pid,
            "replay_cmd_template": "bin/check %s --replay {path}" % pid,
            "engine": "tlc",
            "level_claimed": {"category": c.get("level", MC), "text": c["text"], "design_ref": c["ref"]},
            "level_note": c["note"],
            "technique": c["tech"],
        })
    man = {
        "version": 1,
        "setup_cmd": "python3 tools/setup.py",
        "hooks": {
            "guard": "IPR_VERIF",
            "enable": "harness and library objects are compiled by tools/vlib.py with -DIPR_VERIF from /repo's working tree; "
                      "no hook is currently needed (the public interface exposes the abstract state)",
            "baseline_off_cmd": "cmake --build /repo/_build && ctest --test-dir /repo/_build -j8 --timeout 900",
            "source_commits": [],
            "add_only": True,
        },
        "engines": [
            {"name": "tlc", "path": "/verif/spec", "serves_properties": sorted(CLAIMED),
             "kind_free_text": "explicit TLA+ specification checked by TLC; bound to the C++ library by replaying "
                               "TLC-generated behaviours (harness/*.cxx) and by validating recorded traces (*Trace.tla)"},
        ],
        "checks": checks,
        "notes": "bin/check <id> quick|thorough|--replay <path>; VERIF_SEED, VERIF_TIER, VERIF_REPO are honoured. "
                 "Exit 2 = machinery failure (never a verdict).",
        "not_applicable": [{"property_id": p, "reason": NOT_YET} for p in ALL if p not in CLAIMED],
    }
    with open(os.path.join(VERIF, "MANIFEST.json"), "w") as f:
        json.dump(man, f, indent=1)
        f.write("\n")
    print("MANIFEST.json: %d claimed, %d not applicable" % (len(checks), len(man["not_applicable"])))


if __name__ == "__main__":
    main()
