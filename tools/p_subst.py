"""C16 — substitutions behave as finite maps (spec/IprSubst*.tla)."""
import json
import os
from concurrent.futures import ThreadPoolExecutor

import vlib


def run(pid, tier, seed):
    exe = vlib.build_harness("subst", ["subst.cxx"])
    q = tier == "quick"
    np_, nv = 3, 2
    depth = 5
    consts = {"NParam": np_, "NValue": nv, "Depth": depth, "MaxSubst": 2, "Record": "TRUE"}
    tdir = vlib.trace_dir()
    os.makedirs(tdir, exist_ok=True)
    tp = os.path.join(tdir, "%s-%s-%d.ndjson" % (pid, tier, seed))
    vlib.record_trace(exe, ["record", "--seed", seed, "--runs", 6 if q else 30, "--len", 250 if q else 600], tp)
    # few substitutions over many parameters: every general substitution gets dozens of bindings, each rebound several times
    tpw = os.path.join(tdir, "%s-%s-%d-wide.ndjson" % (pid, tier, seed))
    vlib.record_trace(exe, ["record", "--seed", seed + 5, "--runs", 3 if q else 12, "--len", 400 if q else 900, "--params", 40,
                            "--values", 6, "--maxsubst", 3], tpw)
    with ThreadPoolExecutor(max_workers=3) as ex:
        gf = ex.submit(vlib.generate_and_replay, "IprSubstMC", pid, consts, exe, ("replay", str(np_), str(nv)),
                       ["Inv"], ["FrameMC"], 8, 2400, "8g")
        tf = ex.submit(vlib.validate_trace_resync, "IprSubstTrace", tp, ["Inv"], pid, 4,
                       lambda ev: ev.get("op") == "reset", {"NParam": 6, "NValue": 4})
        wf = ex.submit(vlib.validate_trace_resync, "IprSubstTrace", tpw, ["Inv"], pid + "-wide", 4,
                       lambda ev: ev.get("op") == "reset", {"NParam": 40, "NValue": 6})
        r = gf.result()
        tr = tf.result()
        w = wf.result()
        for k in ("states", "transitions", "executions", "lines"):
            tr[k] += w[k]
        tr["rejections"] += w["rejections"]
    violations, samples = [], []
    s, t = r["summary"], r["tlc"]
    if s["behaviours"] == 0:
        raise vlib.ModelFailure("no behaviour generated")
    samples.append({"kind": "TLC behaviour replayed", "behaviour": json.loads(s["sample"])})
    seen = set()
    for f in r["fails"]:
        if f["key"] in seen:
            continue
        seen.add(f["key"])
        path = vlib.save_replay(pid, "%s.ndjson" % f["key"].replace(":", "-"), "\n".join(json.dumps(e) for e in f["beh"]) + "\n")
        violations.append((f["key"], "step %s: %s specification expects result %s, library gave %s (ids: 1..%d parameters, then values; -1 = some other expression)" % (
            f["step"], json.dumps(f["expected"]), f["expected"]["r"], f["got"]["r"], np_), path))
    if r["crash"]:
        path = vlib.save_replay(pid, "crash.ndjson", r["crash"]["beh"])
        violations.append(("crash", "library crashed while executing a TLC behaviour", path))
    seen = set()
    for (lineno, line, prefix) in tr["rejections"]:
        ev = json.loads(line) if line else {}
        key = "trace:%s" % ev.get("op")
        if key in seen:
            continue
        seen.add(key)
        path = vlib.save_replay(pid, "trace-%d.ndjson" % lineno, "\n".join(prefix) + "\n")
        violations.append((key, "recorded line %d is not a step of IprSubst: %s" % (lineno, line[:300]), path))
    with open(tp) as fh:
        lines = fh.read().splitlines()
    samples.append({"kind": "recorded trace excerpt", "events": [json.loads(x) for x in lines[1:6]]})
    coverage = {
        "states": t.distinct + tr["states"], "transitions": t.generated + tr["transitions"],
        "traces_validated_against_impl": s["behaviours"] - s["failed"] + tr["executions"] - len(tr["rejections"]),
        "evaluations": s["steps"] + tr["lines"], "distinct_nontrivial": s["classes"],
        "rule": "binding A: all sequences of make_elementary/make_general/bind/apply of length %d over %d parameters (from two "
                "parameter lists), %d other values and at most 2 substitutions, replayed with every result compared. A class is "
                "operation x flavour x (queried parameter in/out of the domain) x (new binding/rebinding). binding B: random "
                "histories over 6 parameters, 4 values, unbounded number of substitutions; and over 40 parameters, 6 values and "
                "three substitutions (dozens of bindings per substitution, each parameter rebound several times)." % (depth, np_, nv),
        "samples": samples, "exhaustive": True, "exhaustive_scope": "all behaviours up to the stated depth",
        "recorded_events": tr["lines"],
    }
    return {"coverage": coverage, "violations": violations, "assumptions": ["expressions are identified by address"]}


def replay(pid, path):
    exe = vlib.build_harness("subst", ["subst.cxx"])
    import subprocess
    lines = [json.loads(x) for x in open(path).read().splitlines() if x.strip() and '"reset"' not in x]
    r = subprocess.run([exe, "replay", "6", "4"], input=json.dumps(lines) + "\n", stdout=subprocess.PIPE, text=True)
    if "FAIL " in r.stdout:
        print("VIOLATION property=%s replay=%s" % (pid, path))
        return 1
    print("replay accepted")
    return 0
