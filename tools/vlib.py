"""Shared orchestration helpers for the ipr verification checks.

Everything here is deterministic given (repo tree, /verif tree, VERIF_SEED): builds are cached by content
hash of the repository sources and of the harness sources, TLC runs get their own metadir and a timeout.
"""
import fcntl
import hashlib
import json
import os
import re
import shutil
import subprocess
import sys
import time
from concurrent.futures import ThreadPoolExecutor

VERIF = os.path.dirname(os.path.dirname(os.path.abspath(__file__)))
REPO = os.environ.get("VERIF_REPO", "/repo")
# VERIF_COV=1: a separate build tree whose plain configuration is instrumented for gcov (tools/coverage.sh: which lines of the library
# the drivers of all checks reach); never used by a registered check
COV = bool(os.environ.get("VERIF_COV"))
BUILD = os.path.join(VERIF, "build-cov" if COV else "build")
SPEC = os.path.join(VERIF, "spec")
HARNESS = os.path.join(VERIF, "harness")
# evidence and replays of a run against another tree (VERIF_REPO, used to try seeded changes) stay out of the committed ones
_ALT = "" if REPO == "/repo" and not COV else "-" + hashlib.sha1(REPO.encode()).hexdigest()[:8]
EVIDENCE = os.path.join(VERIF, "evidence") if not _ALT else os.path.join(BUILD, "evidence" + _ALT)
REPLAYS = os.path.join(VERIF, "replays") if not _ALT else os.path.join(BUILD, "replays" + _ALT)
TLA_JAR = "/opt/veriftools/tla/tla2tools.jar:/opt/veriftools/tla/CommunityModules-deps.jar"
GUARD = "IPR_VERIF"

CXX = "g++"
BASE_FLAGS = ["-std=c++23", "-D" + GUARD, "-I" + os.path.join(REPO, "include"), "-I" + HARNESS, "-w"]
CONFIGS = {
    "plain": ["-O1", "-g0"],
    "asan": ["-O1", "-g", "-fno-omit-frame-pointer", "-fsanitize=address,undefined",
             "-fno-sanitize-recover=undefined"],
    "tsan": ["-O1", "-g", "-fsanitize=thread"],
}
if COV:
    CONFIGS["plain"] = ["-O0", "-g0", "--coverage"]
LIB_SOURCES = ["interface.cxx", "impl.cxx", "io.cxx", "traversal.cxx", "utility.cxx"]


class ModelFailure(Exception):
    """The machinery itself failed (TLC crash, build failure, timeout): exit 2, never a VIOLATION."""


def log(*a):
    print(*a, file=sys.stderr, flush=True)


def _hash_files(paths):
    h = hashlib.sha256()
    for p in sorted(paths):
        h.update(p.encode())
        with open(p, "rb") as f:
            h.update(f.read())
    return h.hexdigest()[:16]


def _walk(root):
    out = []
    for d, _, fs in os.walk(root):
        for f in fs:
            out.append(os.path.join(d, f))
    return out


def repo_hash():
    return _hash_files(_walk(os.path.join(REPO, "include")) + _walk(os.path.join(REPO, "src")))


def harness_hash(sources):
    hdrs = [p for p in _walk(HARNESS) if p.endswith((".hpp", ".inc"))]
    return _hash_files(hdrs + [os.path.join(HARNESS, s) for s in sources])


class _Lock:
    def __init__(self, name):
        os.makedirs(BUILD, exist_ok=True)
        self.path = os.path.join(BUILD, name + ".lock")

    def __enter__(self):
        self.f = open(self.path, "w")
        fcntl.flock(self.f, fcntl.LOCK_EX)

    def __exit__(self, *a):
        fcntl.flock(self.f, fcntl.LOCK_UN)
        self.f.close()


def _run_compile(cmd):
    r = subprocess.run(cmd, stdout=subprocess.PIPE, stderr=subprocess.STDOUT, text=True)
    return r.returncode, r.stdout, cmd


def _prune(prefix, keep):
    """Keep only the `keep` most recently used directories with the given prefix (disk is limited)."""
    try:
        ds = [os.path.join(BUILD, d) for d in os.listdir(BUILD) if d.startswith(prefix)]
    except FileNotFoundError:
        return
    ds.sort(key=lambda d: os.path.getmtime(d), reverse=True)
    # never one that was used in the last hour: checks against several trees may be running at the same time
    for d in ds[keep:]:
        if time.time() - os.path.getmtime(d) > 3600:
            shutil.rmtree(d, ignore_errors=True)


def build_lib(cfg):
    """Compile the library sources of the *current* repository tree for one configuration."""
    rh = repo_hash()
    out = os.path.join(BUILD, "lib-%s-%s" % (cfg, rh))
    stamp = os.path.join(out, "ok")
    with _Lock("lib-" + cfg):
        if os.path.exists(stamp):
            os.utime(out)
            return out
        os.makedirs(out, exist_ok=True)
        cmds = []
        for s in LIB_SOURCES:
            src = os.path.join(REPO, "src", s)
            obj = os.path.join(out, s.replace(".cxx", ".o"))
            cmds.append([CXX] + BASE_FLAGS + CONFIGS[cfg] + ["-c", src, "-o", obj])
        t0 = time.time()
        with ThreadPoolExecutor(max_workers=len(cmds)) as ex:
            res = list(ex.map(_run_compile, cmds))
        for rc, txt, cmd in res:
            if rc != 0:
                raise ModelFailure("library build failed (%s):\n%s\n%s" % (cfg, " ".join(cmd), txt[-4000:]))
        open(stamp, "w").write(rh)
        log("[build] lib %s %s in %.0fs" % (cfg, rh, time.time() - t0))
        _prune("lib-%s-" % cfg, 3)
    return out


def gen_categories(outdir):
    """categories.inc: the enumerator names of <ipr/node-category> of the current tree, as string literals."""
    names = []
    for line in open(os.path.join(REPO, "include", "ipr", "node-category")):
        m = re.match(r"\s*([A-Za-z_][A-Za-z_0-9]*)\s*,", line)
        if m:
            names.append(m.group(1))
    with open(os.path.join(outdir, "categories.inc"), "w") as f:
        f.write(",\n".join('"%s"' % n for n in names) + "\n")


def build_harness(name, sources, cfg="plain", extra=()):
    """Build harness executable `name` from harness sources against the current tree. Returns its path."""
    lib = build_lib(cfg)
    hh = harness_hash(sources)
    rh = os.path.basename(lib).split("-")[-1]
    out = os.path.join(BUILD, "bin-%s-%s-%s-%s" % (name, cfg, rh, hh))
    exe = os.path.join(out, name)
    with _Lock("bin-%s-%s" % (name, cfg)):
        if os.path.exists(exe):
            os.utime(out)
            return exe
        os.makedirs(out, exist_ok=True)
        gen_categories(out)
        t0 = time.time()
        objs = []
        cmds = []
        for s in sources:
            obj = os.path.join(out, os.path.basename(s).replace(".cxx", ".o"))
            objs.append(obj)
            cmds.append([CXX] + BASE_FLAGS + ["-I" + out] + CONFIGS[cfg] + list(extra) +
                        ["-c", os.path.join(HARNESS, s), "-o", obj])
        with ThreadPoolExecutor(max_workers=max(1, len(cmds))) as ex:
            res = list(ex.map(_run_compile, cmds))
        for rc, txt, cmd in res:
            if rc != 0:
                raise ModelFailure("harness build failed:\n%s\n%s" % (" ".join(cmd), txt[-6000:]))
        libobjs = [os.path.join(lib, s.replace(".cxx", ".o")) for s in LIB_SOURCES]
        link = [CXX] + CONFIGS[cfg] + objs + libobjs + ["-o", exe + ".tmp", "-lpthread"]
        rc, txt, cmd = _run_compile(link)
        if rc != 0:
            raise ModelFailure("harness link failed:\n%s\n%s" % (" ".join(cmd), txt[-4000:]))
        os.rename(exe + ".tmp", exe)
        log("[build] %s (%s) in %.0fs" % (name, cfg, time.time() - t0))
        _prune("bin-%s-%s-" % (name, cfg), 3)
    return exe


# ---------------------------------------------------------------------------------------------------
# TLC
# ---------------------------------------------------------------------------------------------------

_run_counter = [0]


def _metadir():
    _run_counter[0] += 1
    d = os.path.join(BUILD, "tlc", "%d-%d-%d" % (os.getpid(), _run_counter[0], int(time.time() * 1000) % 100000))
    os.makedirs(d, exist_ok=True)
    return d


def write_cfg(path, spec=None, init=None, next_=None, constants=None, invariants=(), properties=(),
              constraints=(), action_constraints=(), postcondition=None, deadlock=False, view=None, symmetry=None):
    lines = []
    if spec:
        lines.append("SPECIFICATION %s" % spec)
    else:
        lines.append("INIT %s" % init)
        lines.append("NEXT %s" % next_)
    if constants:
        lines.append("CONSTANTS")
        for k, v in constants.items():
            if isinstance(v, str) and v.startswith("<-"):
                lines.append("  %s %s" % (k, v))
            else:
                lines.append("  %s = %s" % (k, v))
    for i in invariants:
        lines.append("INVARIANT %s" % i)
    for p in properties:
        lines.append("PROPERTY %s" % p)
    for c in constraints:
        lines.append("CONSTRAINT %s" % c)
    for c in action_constraints:
        lines.append("ACTION_CONSTRAINT %s" % c)
    if postcondition:
        lines.append("POSTCONDITION %s" % postcondition)
    if view:
        lines.append("VIEW %s" % view)
    if symmetry:
        lines.append("SYMMETRY %s" % symmetry)
    lines.append("CHECK_DEADLOCK %s" % ("TRUE" if deadlock else "FALSE"))
    with open(path, "w") as f:
        f.write("\n".join(lines) + "\n")


def tla_set(xs):
    def one(x):
        if isinstance(x, bool):
            return "TRUE" if x else "FALSE"
        if isinstance(x, str):
            return '"%s"' % x
        return str(x)
    return "{" + ", ".join(one(x) for x in xs) + "}"


class TlcResult:
    def __init__(self):
        self.rc = None
        self.generated = 0
        self.distinct = 0
        self.diameter = 0
        self.violated = None       # name of violated invariant/property, or None
        self.postcondition_failed = False
        self.error = None
        self.coverage = {}         # action name -> (taken, generated)
        self.wall = 0.0
        self.tail = ""
        self.printed = []          # PrintT lines that are not piped elsewhere


_RE_STATES = re.compile(r"(\d+) states generated, (\d+) distinct states found")
_RE_DEPTH = re.compile(r"The depth of the complete state graph search is (\d+)")
_RE_INV = re.compile(r"Invariant (\S+) is violated")
_RE_PROP = re.compile(r"(?:Action|Temporal|State) propert(?:y|ies) (\S+)? ?(?:is|were) violated|Error: Action property (\S+)")
_RE_COV = re.compile(r"^<(\w+) line .*>: (\d+):(\d+)")


def tlc(module, cfg_path, workers=4, timeout=900, env=None, simulate=None, depth=None, coverage=False,
        line_sink=None, heap="4g", extra=(), seed=None, dfs=False):
    """Run TLC on spec/<module>.tla with the given cfg.  `line_sink(line)` receives every stdout line
    (used to pipe behaviours to a replayer); returns a TlcResult.  Raises ModelFailure on tool failure."""
    md = _metadir()
    cmd = ["java", "-XX:+UseSerialGC", "-Xss64m", "-Xmx" + heap]   # ParallelGC burns system time in this VM
    if dfs:
        cmd.append("-Dtlc2.tool.queue.IStateQueue=StateDeque")
    cmd += ["-cp", TLA_JAR, "tlc2.TLC", "-workers", str(workers), "-metadir", md, "-noGenerateSpecTE",
            "-config", cfg_path]
    if simulate:
        cmd += ["-simulate", "num=%d" % simulate]
    if depth:
        cmd += ["-depth", str(depth)]
    if coverage:
        cmd += ["-coverage", "1"]
    if seed is not None:
        cmd += ["-seed", str(seed)]
    cmd += list(extra)
    cmd.append(os.path.join(SPEC, module + ".tla"))
    e = dict(os.environ)
    if env:
        e.update(env)
    res = TlcResult()
    t0 = time.time()
    tail = []
    try:
        p = subprocess.Popen(cmd, stdout=subprocess.PIPE, stderr=subprocess.STDOUT, text=True, env=e, cwd=SPEC,
                             bufsize=1 << 20)
    except OSError as ex:
        raise ModelFailure("cannot start TLC: %s" % ex)
    try:
        import threading
        timer = threading.Timer(timeout, p.kill)
        timer.start()
        for line in p.stdout:
            if line_sink is not None and line_sink(line):
                continue
            line = line.rstrip("\n")
            tail.append(line)
            if len(tail) > 400:
                del tail[:200]
            m = _RE_STATES.search(line)
            if m:
                res.generated, res.distinct = int(m.group(1)), int(m.group(2))
            m = _RE_DEPTH.search(line)
            if m:
                res.diameter = int(m.group(1))
            m = _RE_INV.search(line)
            if m:
                res.violated = m.group(1)
            if "is violated" in line and res.violated is None:
                res.violated = line.strip()
            if "Postcondition" in line or "postcondition" in line:
                if "violated" in line or "false" in line.lower():
                    res.postcondition_failed = True
            m = _RE_COV.match(line)
            if m:
                a, t, g = m.group(1), int(m.group(2)), int(m.group(3))
                pt, pg = res.coverage.get(a, (0, 0))
                res.coverage[a] = (pt + t, pg + g)
            if line.startswith("Error:") and res.error is None:
                res.error = line
        p.wait()
        timer.cancel()
    finally:
        if p.poll() is None:
            p.kill()
        shutil.rmtree(md, ignore_errors=True)
    res.rc = p.returncode
    res.wall = time.time() - t0
    res.tail = "\n".join(tail[-60:])
    if res.rc is None or res.rc < 0 or res.rc == 137:
        raise ModelFailure("TLC killed/timeout after %.0fs on %s\n%s" % (res.wall, module, res.tail))
    # rc 0 = ok, 12 = safety violation, 13 = liveness violation, 10 = assumption failure, 11 = deadlock
    if res.rc not in (0, 12, 13) and not res.postcondition_failed:
        raise ModelFailure("TLC failed rc=%s on %s\n%s" % (res.rc, module, res.tail))
    return res


def sany(module):
    cmd = ["java", "-cp", TLA_JAR, "tla2sany.SANY", os.path.join(SPEC, module + ".tla")]
    r = subprocess.run(cmd, stdout=subprocess.PIPE, stderr=subprocess.STDOUT, text=True, cwd=SPEC)
    ok = r.returncode == 0 and "Semantic errors" not in r.stdout and "*** Errors" not in r.stdout \
        and "Parsing or semantic analysis failed" not in r.stdout and "Fatal errors" not in r.stdout
    return ok, r.stdout


# ---------------------------------------------------------------------------------------------------
# Known findings, evidence, verdicts
# ---------------------------------------------------------------------------------------------------

def known_findings():
    """Parse /verif/known-findings.txt: lines 'known: property=<id> key=<key> <text>' and 'fixed: ...'."""
    out = []
    p = os.path.join(VERIF, "known-findings.txt")
    if not os.path.exists(p):
        return out
    for line in open(p):
        line = line.strip()
        if not line.startswith("known:"):
            continue
        m = re.match(r"known:\s+property=(\S+)\s+key=(\S+)\s*(.*)", line)
        if m:
            out.append({"property": m.group(1), "key": m.group(2), "text": m.group(3)})
    return out


def write_evidence(pid, tier, seed, coverage, wall, violations, assumptions=(), level="model_checking"):
    os.makedirs(EVIDENCE, exist_ok=True)
    ev = {
        "property_id": pid,
        "tier": tier,
        "seed": int(seed),
        "level": level,
        "coverage": coverage,
        "assumptions": list(assumptions),
        "wall_s": round(wall, 2),
        "violations": int(violations),
    }
    tmp = os.path.join(EVIDENCE, pid + ".json.tmp")
    with open(tmp, "w") as f:
        json.dump(ev, f, indent=1, sort_keys=True)
        f.write("\n")
    os.replace(tmp, os.path.join(EVIDENCE, pid + ".json"))


def save_replay(pid, name, content):
    os.makedirs(REPLAYS, exist_ok=True)
    path = os.path.join(REPLAYS, "%s-%s" % (pid, name))
    with open(path, "w") as f:
        f.write(content)
    return path


# ---------------------------------------------------------------------------------------------------
# Binding A: TLC-generated behaviours piped into a replayer; binding B: recorded traces validated by TLC
# ---------------------------------------------------------------------------------------------------

# runs against another tree (VERIF_REPO, used for seeded changes) keep their scratch files apart, so that several can run
# at the same time as a run against /repo
RUN_TAG = "" if REPO == "/repo" else "-" + hashlib.sha1(REPO.encode()).hexdigest()[:8]


def trace_dir():
    d = os.path.join(BUILD, "traces" + RUN_TAG)
    os.makedirs(d, exist_ok=True)
    return d


def cfg_dir():
    d = os.path.join(BUILD, "cfg" + RUN_TAG)
    os.makedirs(d, exist_ok=True)
    return d


def generate_and_replay(module, name, constants, exe, exe_args=("replay",), invariants=(), properties=(),
                        workers=4, timeout=900, heap="4g", spec="Spec", emit="Emit", coverage=False, simulate=None,
                        depth=None, seed=None):
    """Run TLC on `module` with the given constants; every line starting with <<"BEH" is fed to the replayer's
    stdin.  Returns dict(tlc=TlcResult, summary=dict, fails=[dict], harness_rc=int, harness_err=str)."""
    cfg = os.path.join(cfg_dir(), "%s-%s-%d.cfg" % (module, name, os.getpid()))
    write_cfg(cfg, spec=spec, constants=constants, invariants=list(invariants) + [emit], properties=properties)
    lastbeh = os.path.join(cfg_dir(), "%s-%s-%d.lastbeh" % (module, name, os.getpid()))
    henv = dict(os.environ)
    henv["VERIF_LASTBEH"] = lastbeh
    hp = subprocess.Popen([exe] + list(exe_args), stdin=subprocess.PIPE, stdout=subprocess.PIPE, text=True,
                          bufsize=1 << 20, env=henv)
    out_lines = []
    import threading

    def drain():
        for line in hp.stdout:
            out_lines.append(line)
    th = threading.Thread(target=drain)
    th.start()

    def sink(line):
        if line.startswith('<<"BEH"'):
            try:
                hp.stdin.write(line)
            except (BrokenPipeError, ValueError):
                pass
            return True
        return False
    try:
        res = tlc(module, cfg, workers=workers, timeout=timeout, line_sink=sink, heap=heap, coverage=coverage,
                  simulate=simulate, depth=depth, seed=seed)
    finally:
        try:
            hp.stdin.close()
        except Exception:
            pass
        try:
            hp.wait(timeout=600)
        except subprocess.TimeoutExpired:
            hp.kill()
        th.join()
    summary, fails, herr, tlines = None, [], None, []
    for line in out_lines:
        if line.startswith("T "):
            tlines.append(line[2:])
        elif line.startswith("SUMMARY "):
            summary = json.loads(line[8:])
        elif line.startswith("FAIL "):
            fails.append(json.loads(line[5:]))
        elif line.startswith("HARNESS-ERROR"):
            herr = line.strip()
    crash = None
    if hp.returncode is not None and (hp.returncode < 0 or hp.returncode in (1, 134, 139)) and not herr:
        # the library crashed (signal / abort / sanitizer) while executing a behaviour: that is an observation,
        # not a failure of the machinery.  The replayer keeps the behaviour being executed in VERIF_LASTBEH.
        beh = ""
        try:
            beh = open(lastbeh).read()
        except OSError:
            pass
        crash = {"rc": hp.returncode, "beh": beh}
        if summary is None:
            summary = {"behaviours": 1, "steps": 0, "failed": 1, "fail_keys": {"crash": 1}, "classes": 0,
                       "class_list": [], "sample": beh.strip() if beh.strip()[:1] in ("[", "{") else "[]", "shape_diffs": 0}
    elif herr or summary is None or hp.returncode != 0:
        raise ModelFailure("replayer failed on %s/%s: rc=%s %s" % (module, name, hp.returncode, herr))
    try:
        os.unlink(lastbeh)
    except OSError:
        pass
    if res.violated:
        raise ModelFailure("the specification itself violates %s in %s/%s:\n%s" % (res.violated, module, name, res.tail))
    return {"tlc": res, "summary": summary, "fails": fails, "name": name, "trace_lines": tlines, "crash": crash}


def record_trace(exe, args, path, timeout=600, leaks=False):
    env = dict(os.environ)
    # leak detection belongs to C19's check only; everywhere else a sanitizer report means a memory error
    env["ASAN_OPTIONS"] = "detect_leaks=%d:abort_on_error=0:exitcode=1" % (1 if leaks else 0)
    env["UBSAN_OPTIONS"] = "print_stacktrace=1:halt_on_error=1"
    class _Hung:
        returncode = -999
        stderr = "the recorder did not return within %d s: a call into the library does not terminate" % timeout
    with open(path, "w") as f:
        try:
            r = subprocess.run([exe] + [str(a) for a in args], stdout=f, stderr=subprocess.PIPE, text=True, timeout=timeout,
                               env=env)
        except subprocess.TimeoutExpired:
            r = _Hung()            # (recorders finish in seconds; the limits are minutes: a hang, recorded like a crash)
    if r.returncode == 2:
        raise ModelFailure("recorder failed rc=%s: %s" % (r.returncode, r.stderr[-2000:]))
    if r.returncode == 0 and os.environ.get("VERIF_FAKE_CRASH"):
        # self-test of the machinery (tools/selftest_crash.sh): every recorder "dies" after its last event; every check must then
        # report a violation (exit 1), never fail itself (exit 2)
        class _Fake:
            returncode = -11
            stderr = "VERIF_FAKE_CRASH"
        r = _Fake()
    if r.returncode != 0:
        # the library crashed under the recorder (signal, abort, sanitizer report): terminal event that no
        # specification action matches, so the trace is rejected at this line
        kind = "Sanitizer" if ("Sanitizer" in r.stderr or "runtime error" in r.stderr) else "Crash"
        frame = ""
        m = re.search(r"(/[^\s:]*(?:include/ipr|src)/[^\s:]+:\d+)", r.stderr)
        if m:
            frame = m.group(1)
        # a crash can leave a partial last line: keep only complete JSON lines, then the terminal event
        good = []
        for ln in open(path, errors="replace").read().splitlines():
            try:
                json.loads(ln)
                good.append(ln)
            except ValueError:
                pass
        detail = re.sub(r"[^\x20-\x7e]", " ", r.stderr[-600:])
        good.append(json.dumps({"e": kind, "op": kind, "k": kind, "rc": r.returncode, "frame": frame, "detail": detail,
                                "a": [], "q": 0, "w": "", "out": "terminated", "r": 0, "n": 0, "f": "", "l": "", "v": 0,
                                "s": 0, "t": 0, "id": 0}))
        with open(path, "w") as f:
            f.write("\n".join(good) + "\n")
    return path


def validate_trace(module, trace_path, invariants=(), name="trace", timeout=900, heap="4g", constants=None,
                   spec="TSpec", post="Accepted"):
    """TLC trace validation.  Returns (accepted, rejected_line_index (1-based) or 0, TlcResult)."""
    cfg = os.path.join(cfg_dir(), "%s-%s-%d.cfg" % (module, name, os.getpid()))
    write_cfg(cfg, spec=spec, constants=constants, invariants=invariants, postcondition=post)
    res = tlc(module, cfg, workers=1, timeout=timeout, env={"TRACE": trace_path}, heap=heap)
    if res.violated:
        # an invariant failed in some state of the trace: the state after `diameter-1` lines
        return False, max(res.diameter - 1, 1), res
    nlines = sum(1 for _ in open(trace_path))
    if res.postcondition_failed or res.diameter - 1 != nlines:
        return False, res.diameter, res
    return True, 0, res


def validate_trace_chunks(module, trace_path, invariants=(), name="trace", max_rejections=4, is_start=None,
                          constants=None, timeout=900, chunks=8):
    """Same as validate_trace_resync, but the trace is cut at execution boundaries into `chunks` pieces that are
    validated by separate TLC processes in parallel (executions are independent: each starts from the initial state)."""
    lines = open(trace_path).read().splitlines()
    starts = [i for i, ln in enumerate(lines) if is_start(json.loads(ln))]
    workers = max(chunks, 1)
    # TLC handles behaviours of at most 65535 states, and specifications whose state grows along the trace slow down: no
    # piece longer than 20000 lines
    chunks = max(chunks, -(-len(lines) // 20000))
    if len(starts) < 2 * chunks or chunks <= 1:
        return validate_trace_resync(module, trace_path, invariants, name, max_rejections, is_start, constants, timeout)
    per = len(lines) // chunks
    cuts = [0]
    for st in starts:
        if st - cuts[-1] >= per and len(cuts) < chunks:
            cuts.append(st)
    cuts.append(len(lines))
    parts = []
    for k in range(len(cuts) - 1):
        pth = "%s.chunk%d" % (trace_path, k)
        with open(pth, "w") as f:
            f.write("\n".join(lines[cuts[k]:cuts[k + 1]]) + "\n")
        parts.append((pth, cuts[k]))
    with ThreadPoolExecutor(max_workers=min(len(parts), max(workers, 12))) as ex:
        res = list(ex.map(lambda pc: validate_trace_resync(module, pc[0], invariants, "%s-c%d" % (name, parts.index(pc)),
                                                           max_rejections, is_start, constants, timeout), parts))
    out = {"executions": 0, "rejections": [], "states": 0, "transitions": 0, "lines": len(lines)}
    for (pth, off), r in zip(parts, res):
        os.unlink(pth)
        out["executions"] += r["executions"]
        out["states"] += r["states"]
        out["transitions"] += r["transitions"]
        out["rejections"] += [(ln + off, line, prefix) for (ln, line, prefix) in r["rejections"]]
    return out


def validate_trace_resync(module, trace_path, invariants=(), name="trace", max_rejections=4, is_start=None,
                          constants=None, timeout=900):
    """Validate; on rejection remember the line and continue after the next execution boundary (a line for
    which is_start(json) holds).  Returns dict(accepted_execs, rejections=[(lineno, line, prefix_lines)],
    states, lines)."""
    lines = open(trace_path).read().splitlines()
    # a terminal event (the recorder died: record_trace appended it) is a line that no action of any specification matches; TLC is
    # not asked about it (a trace specification may not even be able to evaluate its guards on it): it is a rejection by definition
    terminal = None
    if lines:
        try:
            last = json.loads(lines[-1])
        except ValueError:
            last = {}
        if last.get("out") == "terminated" and last.get("k") in ("Crash", "Sanitizer"):
            terminal = lines.pop()
    offset = 0
    rejections = []
    states = 0
    transitions = 0
    part = 0
    if terminal is not None and not lines:
        return {"executions": 0, "rejections": [(1, terminal, [terminal])], "states": 0, "transitions": 0, "lines": 1}
    while offset < len(lines) and len(rejections) <= max_rejections:
        part += 1
        sub = lines[offset:]
        pth = "%s.part%d" % (trace_path, part)
        with open(pth, "w") as f:
            f.write("\n".join(sub) + "\n")
        ok, rej, res = validate_trace(module, pth, invariants, name=name, constants=constants, timeout=timeout)
        states += res.distinct
        transitions += res.generated
        os.unlink(pth)
        if ok:
            break
        # start of the execution that contains the rejected line
        begin = rej - 1
        while begin > 0 and not is_start(json.loads(sub[begin])):
            begin -= 1
        rejections.append((offset + rej, sub[rej - 1] if rej - 1 < len(sub) else "", sub[begin:rej]))
        nxt = rej
        while nxt < len(sub) and not is_start(json.loads(sub[nxt])):
            nxt += 1
        offset += nxt
    nexec = sum(1 for ln in lines if is_start(json.loads(ln)))
    if terminal is not None:
        begin = len(lines) - 1
        while begin > 0 and not is_start(json.loads(lines[begin])):
            begin -= 1
        rejections.append((len(lines) + 1, terminal, lines[begin:] + [terminal]))
        lines.append(terminal)
    return {"executions": nexec, "rejections": rejections, "states": states, "transitions": transitions,
            "lines": len(lines)}
