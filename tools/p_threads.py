"""C20 — Lexicons are isolated: independent instances can be used from different threads (spec/IprThreads*.tla)."""
import json
import os
from concurrent.futures import ThreadPoolExecutor

import vlib
from vlib import tla_set


def is_start(ev):
    return ev.get("op") == "init"


def run(pid, tier, seed):
    q = tier == "quick"
    exe = vlib.build_harness("threads", ["threads.cxx"])
    exe_tsan = vlib.build_harness("threads", ["threads.cxx"], cfg="tsan")
    tdir = vlib.trace_dir()
    os.makedirs(tdir, exist_ok=True)
    recs = []
    plan = [(2, "plain"), (4, "tsan"), (8, "plain"), (16, "tsan")] if q else \
        [(2, "plain"), (2, "tsan"), (4, "plain"), (4, "tsan"), (8, "plain"), (8, "tsan"), (16, "plain"), (16, "tsan")]
    for k, (nt, cfg) in enumerate(plan):
        tp = os.path.join(tdir, "%s-%s-%d-%s-%d.ndjson" % (pid, tier, nt, cfg, seed))
        env_exe = exe if cfg == "plain" else exe_tsan
        vlib.record_trace(env_exe, ["record", "--seed", seed * 13 + k, "--threads", nt, "--len", 80 if q else 200,
                                    "--rounds", 2 if q else (10 if cfg == "tsan" else 4)], tp, timeout=2400)
        recs.append((nt, cfg, tp))

    def model(shared):
        cfg = os.path.join(vlib.cfg_dir(), "IprThreads-%s-%s-%d.cfg" % (pid, shared, os.getpid()))
        vlib.write_cfg(cfg, spec="ThSpec", constants={"Procs": tla_set([1, 2]) if q else tla_set([1, 2, 3]), "Keys": tla_set([1, 2]),
                                                     "MaxSteps": 3 if q else 3, "Shared": shared},
                       invariants=["AsAlone", "Disjoint"])
        return vlib.tlc("IprThreads", cfg, workers=4, timeout=1200)

    def val(rec):
        return vlib.validate_trace_chunks("IprThreadsTrace", rec[2], ["UInvariant"], pid, 4, is_start, None, 2400, chunks=4) \
            if False else vlib.validate_trace_resync("IprThreadsTrace", rec[2], ["UInvariant"], "%s-%d%s" % (pid, rec[0], rec[1]), 4,
                                                     is_start, None, 2400)

    # IprThreadsTrace's specification is ThrSpec (it adds the isolation event to the sequential trace spec)
    def val2(rec):
        return _validate(rec[2], "%s-%d%s" % (pid, rec[0], rec[1]))

    with ThreadPoolExecutor(max_workers=8) as ex:
        m1 = ex.submit(model, "FALSE")
        m2 = ex.submit(model, "TRUE")
        vf = [ex.submit(val2, r) for r in recs]
        tight, loose = m1.result(), m2.result()
        vres = [f.result() for f in vf]
    if tight.violated or not loose.violated:
        raise vlib.ModelFailure("IprThreads sanity failed: private tables violated=%s, shared table violated=%s" % (tight.violated, loose.violated))
    violations = []
    seen = set()
    states, transitions = tight.distinct + loose.distinct, tight.generated + loose.generated
    execs = rej = lines = 0
    for (nt, cfg, tp), r in zip(recs, vres):
        states += r["states"]
        transitions += r["transitions"]
        execs += r["executions"]
        lines += r["lines"]
        for (lineno, line, prefix) in r["rejections"]:
            try:
                ev = json.loads(line)
            except ValueError:
                ev = {}
            rej += 1
            op = ev.get("op", ev.get("e"))
            key = "%s:%s" % (op, cfg)
            if key in seen:
                continue
            seen.add(key)
            path = vlib.save_replay(pid, "%dthreads-%s-%d.ndjson" % (nt, cfg, lineno), "\n".join(prefix[-60:]) + "\n")
            if op == "isolation":
                text = "%d threads: Lexicons alive together share %s non-constant nodes (constants differ: %s)" % (
                    nt, ev.get("shared_nonconstant"), ev.get("constants_differ"))
            elif op in ("Sanitizer", "Crash"):
                text = "%d threads under %s: %s %s" % (nt, cfg, ev.get("frame"), ev.get("detail", "")[-400:])
            else:
                text = "%d threads (%s): a thread did not obtain what it would obtain alone: %s" % (nt, cfg, line[:300])
            violations.append((key, text, path))
    head = open(recs[0][2]).read().splitlines()
    cov = {
        "states": states, "transitions": transitions, "traces_validated_against_impl": execs - rej, "evaluations": lines,
        "distinct_nontrivial": execs,
        "rule": "IprThreads is model-checked for 2 (quick) / 3 (thorough) processes x 2 keys x 3 requests each, with private tables "
                "(AsAlone and Disjoint hold on every interleaving) and with a shared table (violation found: vacuity guard). "
                "Runs with 2, 4, 8 and 16 threads, each thread building, declaring and printing in its own Lexicon from a common "
                "start with random yields; every thread's trace is validated against the sequential IprUnify specification, the "
                "Lexicons of a round are kept alive until the join and their node addresses intersected; half of the runs under "
                "ThreadSanitizer (a report is a terminal event). distinct_nontrivial = thread executions validated.",
        "samples": [json.loads(x) for x in (head[1:2] + [x for x in head if '"isolation"' in x][:1])], "exhaustive": False,
        "runs": [{"threads": nt, "config": cfg} for nt, cfg, _ in recs],
    }
    return {"coverage": cov, "violations": violations,
            "assumptions": ["data-race freedom is ThreadSanitizer's observation on the schedules that occurred", "the C++ code's schedules are sampled, not enumerated"]}


def _validate(tp, name):
    """validate_trace_resync with IprThreadsTrace's own specification name"""
    lines = open(tp).read().splitlines()
    offset = 0
    rejections = []
    states = transitions = 0
    part = 0
    while offset < len(lines) and len(rejections) <= 4:
        part += 1
        sub = lines[offset:]
        pth = "%s.part%d" % (tp, part)
        open(pth, "w").write("\n".join(sub) + "\n")
        ok, rej, res = vlib.validate_trace("IprThreadsTrace", pth, ["UInvariant"], name=name, timeout=2400, spec="ThrSpec")
        states += res.distinct
        transitions += res.generated
        os.unlink(pth)
        if ok:
            break
        begin = rej - 1
        while begin > 0 and not is_start(json.loads(sub[begin])):
            begin -= 1
        rejections.append((offset + rej, sub[rej - 1] if rej - 1 < len(sub) else "", sub[begin:rej]))
        nxt = rej
        while nxt < len(sub) and not is_start(json.loads(sub[nxt])):
            nxt += 1
        offset += nxt
    return {"executions": sum(1 for ln in lines if is_start(json.loads(ln))), "rejections": rejections, "states": states,
            "transitions": transitions, "lines": len(lines)}


def replay(pid, path):
    r = run(pid, "quick", 1)
    print("VIOLATION property=%s replay=%s" % (pid, path) if r["violations"] else "replay accepted")
    return 1 if r["violations"] else 0
