"""C08 — the ordered-set utility stays a valid balanced search tree (spec/RBTree*.tla)."""
import json
import os
import re
from concurrent.futures import ThreadPoolExecutor

import vlib
from vlib import tla_set


def is_start(ev):
    return ev.get("e") == "new"


def run(pid, tier, seed):
    exe = vlib.build_harness("rbtree", ["rbtree.cxx"])
    q = tier == "quick"
    K, L = (5, 6) if q else (7, 7)
    violations, samples = [], []
    states = transitions = 0

    def gen(kind):
        consts = {"Keys": tla_set(range(1, K + 1)), "Depth": L, "Owning": "TRUE" if kind == "owning" else "FALSE",
                  "Record": "TRUE"}
        return vlib.generate_and_replay("RBTreeMC", "%s-%s" % (pid, kind), consts, exe, exe_args=("replay", kind),
                                        invariants=["Valid"], workers=6, timeout=2400, heap="8g")

    def simulated(kind):
        # random (TLC simulation mode) longer sequences over more keys: deeper rotation / recolouring cases
        n = 14 if q else 24
        consts = {"Keys": tla_set(range(1, n + 1)), "Depth": n, "Owning": "TRUE" if kind == "owning" else "FALSE", "Record": "TRUE"}
        return vlib.generate_and_replay("RBTreeMC", "%s-sim-%s" % (pid, kind), consts, exe, exe_args=("replay", kind),
                                        invariants=["Valid"], workers=2, timeout=3000, heap="4g",
                                        simulate=1500 if q else 5000, depth=n + 1, seed=seed)

    def exhaustive(kind):
        # no histories: states merge, so all insertion orders over more keys are covered
        n = 7 if q else 9
        consts = {"Keys": tla_set(range(1, n + 1)), "Depth": n, "Owning": "TRUE" if kind == "owning" else "FALSE",
                  "Record": "FALSE"}
        cfg = os.path.join(vlib.cfg_dir(), "RBTreeMC-%s-ex-%s-%d.cfg" % (pid, kind, os.getpid()))
        vlib.write_cfg(cfg, spec="Spec", constants=consts, invariants=["Valid"])
        r = vlib.tlc("RBTreeMC", cfg, workers=4, timeout=2400, heap="8g")
        if r.violated:
            raise vlib.ModelFailure("I-level RBTree violates %s (keys 1..%d): the transcription or the design is wrong\n%s"
                                    % (r.violated, n, r.tail))
        return r

    tdir = vlib.trace_dir()
    os.makedirs(tdir, exist_ok=True)
    tp = os.path.join(tdir, "%s-%s-%d.ndjson" % (pid, tier, seed))
    maxn, dense, every = (160, 32, 16) if q else (1200, 64, 60)
    vlib.record_trace(exe, ["record", "--seed", seed, "--max", maxn, "--dense", dense, "--every", every], tp)

    def val(path):
        return vlib.validate_trace_resync("RBTreeTrace", path, invariants=["TValid"], name=pid, is_start=is_start,
                                          timeout=2400)

    with ThreadPoolExecutor(max_workers=6) as ex:
        gf = [ex.submit(gen, k) for k in ("owning", "chain")] + [ex.submit(simulated, k) for k in ("owning", "chain")]
        xf = [ex.submit(exhaustive, k) for k in ("owning", "chain")]
        tf = ex.submit(val, tp)
        gr = [f.result() for f in gf]
        xr = [f.result() for f in xf]
        tr = tf.result()

    behaviours = steps = failed = shape_diffs = classes = 0
    per_job = {}
    diff_lines = []
    for r in gr:
        t, s = r["tlc"], r["summary"]
        states += t.distinct
        transitions += t.generated
        behaviours += s["behaviours"]
        steps += s["steps"]
        failed += s["failed"]
        shape_diffs += s["shape_diffs"]
        classes += s["classes"]
        per_job[r["name"]] = {k: s[k] for k in ("behaviours", "failed", "shape_diffs", "classes", "fail_keys")}
        diff_lines += r["trace_lines"]
        if s["behaviours"] == 0:
            raise vlib.ModelFailure("no behaviour generated for %s" % r["name"])
        if len(samples) < 2 and s.get("sample"):
            samples.append({"kind": "TLC insertion sequence with predicted shapes (%s)" % r["name"],
                            "behaviour": json.loads(s["sample"])[:3]})
        if r["crash"]:
            try:
                keys = [h["k"] for h in json.loads(r["crash"]["beh"])]
            except ValueError:
                keys = []
            kind = r["name"].split("-")[-1]
            path = vlib.save_replay(pid, "%s-crash.json" % r["name"], json.dumps({"kind": kind, "keys": keys}) + "\n")
            violations.append((kind + ":crash", "the %s tree crashed (rc=%s) while inserting %s" % (kind, r["crash"]["rc"], keys), path))
        seen = set()
        for f in r["fails"]:
            if f["key"] in seen:
                continue
            seen.add(f["key"])
            path = vlib.save_replay(pid, "%s-%s.json" % (r["name"], re.sub(r"\W+", "_", f["key"])),
                                    json.dumps({"kind": r["name"].split("-")[-1], "keys": f["keys"]}) + "\n")
            violations.append((r["name"].split("-")[-1] + ":" + f["key"],
                               "insertion sequence %s: %s differs from the specification at step %s" % (f["keys"], f["key"], f["step"]), path))
    for r in xr:
        states += r.distinct
        transitions += r.generated
    # shapes that differ from the I-level prediction are judged at the R-level
    diff_res = None
    if diff_lines:
        dp = os.path.join(tdir, "%s-shapediff-%d.ndjson" % (pid, seed))
        open(dp, "w").write("".join(diff_lines))
        diff_res = val(dp)
        states += diff_res["states"]
        transitions += diff_res["transitions"]
        for (lineno, line, prefix) in diff_res["rejections"][:3]:
            keys = [json.loads(e)["k"] for e in prefix if json.loads(e).get("e") == "ins"]
            path = vlib.save_replay(pid, "shape-%d.ndjson" % lineno, "\n".join(prefix) + "\n")
            violations.append(("shape:invalid", "after inserting %s the tree is not a valid red-black search tree: %s" % (keys, line[:300]), path))
    states += tr["states"]
    transitions += tr["transitions"]
    seen = set()
    for (lineno, line, prefix) in tr["rejections"]:
        ev = json.loads(line) if line else {}
        first = json.loads(prefix[0]) if prefix else {}
        key = "trace:%s:%s" % (first.get("kind", "?"), ev.get("e", "?"))
        if key in seen:
            continue
        seen.add(key)
        path = vlib.save_replay(pid, "trace-%d.ndjson" % lineno, "\n".join(prefix) + "\n")
        nins = sum(1 for e in prefix if '"ins"' in e)
        violations.append((key, "recorded %s tree: line %d (after %d insertions) is not allowed by RBTreeTrace: %s" % (
            first.get("kind"), lineno, nins, line[:300]), path))
    with open(tp) as fh:
        head = [json.loads(next(fh)) for _ in range(3)]
    samples.append({"kind": "recorded trace excerpt", "events": head})
    coverage = {
        "states": states, "transitions": transitions,
        "traces_validated_against_impl": behaviours - failed + tr["executions"] - len(tr["rejections"]),
        "evaluations": steps + tr["lines"],
        "distinct_nontrivial": classes,
        "rule": "binding A: every insertion sequence of length %d over keys 1..%d (duplicates included), both flavours, "
                "replayed with the shape after every insertion compared with the I-level prediction; a differing shape is "
                "validated at the R-level instead. distinct_nontrivial = number of distinct final tree shapes+colourings "
                "reached. binding B: sorted/reversed/zig-zag/random/duplicate-heavy sequences up to %d keys with integer, "
                "address and lexicographic comparators and a comparator answering with 64-bit differences of keys 2^31 apart, shapes validated by RBTreeTrace (R-level)." % (L, K, maxn),
        "samples": samples, "exhaustive": True,
        "exhaustive_scope": "all sequences of length %d over %d keys (replayed); all insertion orders over %d keys on the model" % (L, K, 7 if q else 9),
        "jobs": per_job, "shape_differences_from_I_level": shape_diffs,
        "shape_differences_validated_at_R_level": (diff_res["executions"] if diff_res else 0),
        "recorded_trees": tr["executions"], "recorded_events": tr["lines"],
    }
    return {"coverage": coverage, "violations": violations,
            "assumptions": ["comparators used by the harness are total orders", "tree shape is read through a class derived from the protected core"]}


def replay(pid, path):
    exe = vlib.build_harness("rbtree", ["rbtree.cxx"])
    txt = open(path).read()
    if path.endswith(".ndjson"):
        # a recorded trace prefix: re-run the same insertions on the current tree and validate again
        lines = [json.loads(x) for x in txt.splitlines() if x.strip()]
        kind = lines[0].get("kind", "owning") if lines else "owning"
        kind = {"owning": "owning", "chain": "chain"}.get(kind, kind)
        keys = [e["k"] for e in lines if e.get("e") == "ins"]
    else:
        d = json.loads(txt)
        kind, keys = d["kind"], d["keys"]
    import subprocess
    beh = json.dumps([{"k": k, "dup": False, "found": k, "t": {"root": 0, "key": [], "left": [], "right": [], "parent": [], "red": [], "count": -1}} for k in keys])
    rkind = kind if kind in ("owning", "chain", "address", "lexicographic", "wide") else "owning"
    r = subprocess.run([exe, "replay", rkind], input=beh + "\n", stdout=subprocess.PIPE, text=True)
    tl = [ln[2:] for ln in r.stdout.splitlines(True) if ln.startswith("T ")]
    fails = [ln for ln in r.stdout.splitlines() if ln.startswith("FAIL ")]
    out = os.path.join(vlib.BUILD, "traces", "replay-%s-%d.ndjson" % (pid, os.getpid()))
    os.makedirs(os.path.dirname(out), exist_ok=True)
    open(out, "w").write("".join(tl))
    bad = bool(fails) and any('"size"' not in f.split('"key":')[1][:30] for f in fails)
    if tl:
        ok, rej, res = vlib.validate_trace("RBTreeTrace", out, invariants=["TValid"], name="replay")
        bad = bad or not ok
    if bad:
        print("VIOLATION property=%s replay=%s" % (pid, path))
        return 1
    print("replay accepted: valid red-black search tree after every insertion of %s" % path)
    return 0
