#!/bin/sh
# tools/coverage.sh [quick|thorough]: which lines of the library do the drivers of all checks and extras reach?
# Builds an instrumented copy of every harness (build-cov/), runs every check and every extra, and prints per source file the
# lines of /repo/src and /repo/include/ipr that were never executed (build-cov/uncovered.txt). Not a check: a map for growing the spec.
TIER="${1:-quick}"
cd "$(dirname "$0")/.."
export VERIF_COV=1
rm -rf build-cov; mkdir -p build-cov
for i in 01 02 03 04 05 06 07 08 09 10 11 12 13 14 15 16 17 18 19 20; do
  bin/check C$i $TIER > build-cov/run-C$i.log 2>&1; echo "C$i rc=$?"
done
bin/extras all $TIER > build-cov/run-extras.log 2>&1; echo "extras rc=$?"
git checkout extras/ 2>/dev/null
python3 tools/coverage_report.py
