#!/bin/sh
# tools/coverage.sh [quick|thorough]: which lines of the library do the drivers of all checks and extras reach?
# Builds an instrumented copy of every harness (build-cov/), runs every check and every extra, and prints per source file the
# lines of /repo/src and /repo/include/ipr that were never executed (build-cov/uncovered.txt). Not a check: a map for growing the spec.
TIER="${1:-quick}"
cd "$(dirname "$0")/.."
export VERIF_COV=1
rm -rf build-cov; mkdir -p build-cov
for i in 01 02 03 04 05 06 07 08 09 10 11 12 13 14 15 16 17 18 19 20; do
  bin/check C$i $TIER > build-cov/run-C$i.log 2>&1; echo "C$i rc=$?"
done
bin/extras all $TIER > build-cov/run-extras.log 2>&1; echo "extras rc=$?"
mkdir -p build-cov/gcov && cd build-cov/gcov
for d in ../lib-plain-* ../bin-*-plain-*; do
  for o in "$d"/*.gcda; do [ -f "$o" ] && gcov -p -o "$d" "$o" >/dev/null 2>&1; done
done
python3 - <<'P'
import glob, re, collections
hit = collections.defaultdict(dict)
for f in glob.glob("*.gcov"):
    src = None
    for ln in open(f, errors="replace"):
        m = re.match(r"\s*([^:]+):\s*(\d+):(.*)", ln)
        if not m: continue
        c, n, t = m.group(1).strip(), int(m.group(2)), m.group(3)
        if n == 0:
            if t.startswith("Source:"): src = t[7:]
            continue
        if src is None or "/repo/" not in src and "ipr-" not in src: continue
        if c == "-": continue
        e = 0 if c.startswith("#") or c.startswith("=") else 1
        hit[src][n] = max(hit[src].get(n, 0), e)
with open("../uncovered.txt", "w") as out:
    for src in sorted(hit):
        un = sorted(n for n, e in hit[src].items() if not e)
        tot = len(hit[src])
        out.write("%s: %d of %d executable lines never reached\n" % (src, len(un), tot))
        lines = open(src, errors="replace").read().split("\n") if un else []
        for n in un:
            out.write("   %5d: %s\n" % (n, lines[n - 1] if n - 1 < len(lines) else ""))
print(open("../uncovered.txt").read()[:200])
P
