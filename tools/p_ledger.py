"""C19 — destroying a Lexicon frees all its memory; live use never touches dead storage (spec/IprLedger*.tla)."""
import json
import os
from concurrent.futures import ThreadPoolExecutor

import vlib
from vlib import tla_set


def is_start(ev):
    return ev.get("e") == "begin"


def run(pid, tier, seed):
    q = tier == "quick"
    exe = vlib.build_harness("ledger", ["ledger.cxx"])
    tdir = vlib.trace_dir()
    os.makedirs(tdir, exist_ok=True)
    tp = os.path.join(tdir, "%s-%s-%d.ndjson" % (pid, tier, seed))
    vlib.record_trace(exe, ["record", "--seed", seed], tp, timeout=1200)
    # the same library under AddressSanitizer + LeakSanitizer, driven by recorders of other modules (their traces are not
    # re-validated here: only the sanitizer's verdict is taken, as a terminal event of an otherwise empty trace)
    san = []
    runs = [("strings", ["strings.cxx"], ["record", "--seed", seed, "--n", 300]), ("seqs", ["seqs.cxx"], ["record"]),
            ("ledger", ["ledger.cxx"], ["record", "--seed", seed + 1])]
    if not q:
        runs.append(("make", ["make.cxx"], ["record", "--seed", seed, "--runs", 3, "--len", 300]))
    def san_run(job):
        name, srcs, args = job
        e = vlib.build_harness(name, srcs, cfg="asan")
        p = os.path.join(tdir, "%s-%s-asan-%s.ndjson" % (pid, tier, name))
        vlib.record_trace(e, args, p, timeout=2400, leaks=True)
        last = open(p).read().splitlines()[-1:]
        ev = json.loads(last[0]) if last else {}
        return (name, ev if ev.get("e") in ("Sanitizer", "Crash") else None, p)

    # the same recorders (plain build) under valgrind's memcheck: reads of storage that no live object has written (an arena
    # tail, a recycled block) and leaks, which the sanitizer build does not see when the bytes lie inside a live allocation
    import subprocess
    vg_runs = [("strings", ["strings.cxx"], ["record", "--seed", seed, "--n", 100]), ("seqs", ["seqs.cxx"], ["record"]),
               ("ledger", ["ledger.cxx"], ["record", "--seed", seed + 2]), ("units", ["units.cxx"], ["record", "--runs", 2, "--len", 40]),
               ("unify", ["unify.cxx"], ["record", "--seed", seed, "--runs", 2, "--len", 60]),
               ("make", ["make.cxx"], ["record", "--seed", seed, "--runs", 2 if q else 6, "--len", 150 if q else 400])]
    def vg_run(job):
        name, srcs, args = job
        e = vlib.build_harness(name, srcs)
        try:
            r = subprocess.run(["valgrind", "-q", "--error-exitcode=9", "--leak-check=full", "--errors-for-leak-kinds=definite,indirect", e]
                               + [str(a) for a in args], stdout=subprocess.DEVNULL, stderr=subprocess.PIPE, text=True, timeout=1800)
        except subprocess.TimeoutExpired:
            raise vlib.ModelFailure("valgrind run of %s timed out" % name)
        if r.returncode == 2:
            raise vlib.ModelFailure("recorder %s failed under valgrind: %s" % (name, r.stderr[-500:]))
        return (name, r.returncode, r.stderr)

    for job in runs:                       # (builds first, one at a time: they take the build locks)
        vlib.build_harness(job[0], job[1], cfg="asan")
    for job in vg_runs:
        vlib.build_harness(job[0], job[1])
    with ThreadPoolExecutor(max_workers=10) as ex:
        sf = [ex.submit(san_run, j) for j in runs]
        vf = [ex.submit(vg_run, j) for j in vg_runs]
        san = [f.result() for f in sf]
        vg = [f.result() for f in vf]

    def model(leaky):
        cfg = os.path.join(vlib.cfg_dir(), "IprLedgerMC-%s-%s-%d.cfg" % (pid, leaky, os.getpid()))
        vlib.write_cfg(cfg, spec="Spec", constants={"Ids": tla_set([1, 2, 3, 4]), "Leaky": leaky}, invariants=["CanEnd"])
        return vlib.tlc("IprLedgerMC", cfg, workers=2, timeout=600)

    with ThreadPoolExecutor(max_workers=3) as ex:
        f1 = ex.submit(model, "FALSE")
        f2 = ex.submit(model, "TRUE")
        f3 = ex.submit(vlib.validate_trace_resync, "IprLedgerTrace", tp, ["LedgerOK"], pid, 30, is_start, None, 1200)
        m_ok, m_leaky, tr = f1.result(), f2.result(), f3.result()
    if m_ok.violated or not m_leaky.violated:
        raise vlib.ModelFailure("IprLedgerMC sanity failed: tight model violated=%s, leaky model violated=%s" % (m_ok.violated, m_leaky.violated))
    violations = []
    seen = set()
    lines = [json.loads(x) for x in open(tp) if x.strip()]
    for (lineno, line, prefix) in tr["rejections"]:
        ev = json.loads(line) if line.startswith("{") else {}
        kind = "?"
        for e in reversed(lines[:lineno]):
            if e.get("kind"):
                kind = e["kind"]
                break
        key = "%s:%s" % (ev.get("e"), kind)
        if key in seen:
            continue
        seen.add(key)
        if ev.get("e") == "summary":
            text = "history `%s`: %d allocations, %d returned, %d outstanding after the Lexicon was destroyed (foreign frees: %d)" % (
                kind, ev.get("allocs"), ev.get("frees"), ev.get("outstanding"), ev.get("foreign_free"))
        elif ev.get("e") == "end":
            text = "history `%s`: the ledger is not back to its state at Begin when the Lexicon has been destroyed" % kind
        else:
            text = "history `%s`: line %d is not a ledger step: %s" % (kind, lineno, line[:200])
        path = vlib.save_replay(pid, "%s-%d.ndjson" % (kind.replace("+", "_").replace("?", "start"), lineno), "\n".join(prefix[-50:]) + "\n")
        violations.append((key, text, path))
    for name, ev, p in san:
        if ev is not None:
            key = "sanitizer:%s" % name
            path = vlib.save_replay(pid, "sanitizer-%s.json" % name, json.dumps(ev) + "\n")
            violations.append((key, "%s history under AddressSanitizer/LeakSanitizer: %s %s" % (name, ev.get("frame"), ev.get("detail", "")[-300:]), path))
    for name, rc, err in vg:
        if rc != 0:
            first = [ln for ln in err.splitlines() if ln.startswith("==")][:12]
            path = vlib.save_replay(pid, "valgrind-%s.txt" % name, err[:20000])
            violations.append(("valgrind:%s" % name, "%s history under valgrind memcheck (exit %s): %s" % (name, rc, " | ".join(first)[:600]), path))
    summaries = [e for e in lines if e.get("e") == "summary"]
    cov = {
        "states": m_ok.distinct + m_leaky.distinct + tr["states"], "transitions": m_ok.generated + m_leaky.generated + tr["transitions"],
        "traces_validated_against_impl": tr["executions"] - len([r for r in tr["rejections"]]) + len([1 for _, ev, _ in san if ev is None]),
        "evaluations": sum(e["allocs"] + e["frees"] for e in summaries), "valgrind_runs": [n for n, _, _ in vg],
        "distinct_nontrivial": len({e["kind"] for e in summaries}) + len(san),
        "rule": "twelve construction histories (empty Lexicon, unit, names, types incl. foreign transfers, scopes with redeclarations, "
                "nested regions/handlers/mappings/modules, strings incl. roll-over and oversize pools, the whole zoo built and "
                "printed, two interleaved Lexicons, requests on constants in three successive Lexicons, printing at great depth, every "
                "kind of lookup table with 300 entries entered in descending / ascending / zig-zag key order), each run three times in one process; runs 2 and 3 are entered in the ledger "
                "(global operator new/delete replaced): allocation by allocation when <= 400 allocations, as counters otherwise. "
                "IprLedgerMC is checked both tight (no violation) and with a forgetful owner (violation found) as a vacuity guard. "
                "The sanitizer runs contribute only their verdict. distinct_nontrivial = history kinds + sanitizer runs.",
        "samples": (summaries[5:8] + lines[2:3]) or lines[-1:], "exhaustive": False,
        "histories": {e["kind"]: {"allocs": e["allocs"], "outstanding": e["outstanding"]} for e in summaries},
        "sanitizer_runs": [n for n, _, _ in san],
    }
    return {"coverage": cov, "violations": violations,
            "assumptions": ["memory obtained through the global allocation functions only (the library uses nothing else)",
                            "'never touches dead storage' is AddressSanitizer's observation on the histories run"]}


def replay(pid, path):
    r = run(pid, "quick", 1)
    print("VIOLATION property=%s replay=%s" % (pid, path) if r["violations"] else "replay accepted")
    return 1 if r["violations"] else 0
