#!/usr/bin/env python3
"""MANIFEST.setup_cmd: parse every specification module and pre-build the library and the harnesses for the
current /repo tree (checks rebuild by content hash whenever the tree changes)."""
import os
import sys
from concurrent.futures import ThreadPoolExecutor

sys.path.insert(0, os.path.dirname(os.path.abspath(__file__)))
import vlib  # noqa: E402
from harnesses import HARNESSES  # noqa: E402


def main():
    bad = 0
    mods = sorted(f[:-4] for f in os.listdir(vlib.SPEC) if f.endswith(".tla"))
    with ThreadPoolExecutor(max_workers=8) as ex:
        for m, (ok, out) in zip(mods, ex.map(vlib.sany, mods)):
            print("sany %-24s %s" % (m, "ok" if ok else "FAILED"))
            if not ok:
                print(out[-3000:])
                bad += 1
    try:
        cfgs = sorted({c for _, _, c in HARNESSES})
        with ThreadPoolExecutor(max_workers=3) as ex:
            list(ex.map(vlib.build_lib, cfgs))
        with ThreadPoolExecutor(max_workers=8) as ex:
            list(ex.map(lambda h: vlib.build_harness(h[0], h[1], h[2]), HARNESSES))
    except vlib.ModelFailure as e:
        print(e)
        bad += 1
    return 1 if bad else 0


if __name__ == "__main__":
    sys.exit(main())
