"""C06 — category code, accept() and visitor defaults agree for every node class (spec/IprVisitor*.tla)."""
import json
import os
import subprocess
from concurrent.futures import ThreadPoolExecutor

import vlib


def run(pid, tier, seed):
    exe = vlib.build_harness("visit", ["visit.cxx"])
    tdir = vlib.trace_dir()
    os.makedirs(tdir, exist_ok=True)
    tp = os.path.join(tdir, "%s-%s.ndjson" % (pid, tier))
    vlib.record_trace(exe, ["zoo"], tp)
    events = [json.loads(x) for x in open(tp) if x.strip()]
    all_events = events
    # binding A: the chain TLC prints for every category, compared with every instance of that category
    cfg = os.path.join(vlib.cfg_dir(), "IprVisitorMC-%s-%d.cfg" % (pid, os.getpid()))
    vlib.write_cfg(cfg, spec="Spec", invariants=["Emit"])
    lines = []

    def sink(line):
        if line.startswith('<<"BEH"'):
            lines.append(line)
            return True
        return False
    res = vlib.tlc("IprVisitorMC", cfg, workers=2, timeout=600, line_sink=sink)
    table = {}
    for ln in lines:
        b = ln.index('", "') + 4
        e = ln.rindex('">>')
        rec = json.loads(ln[b:e].replace('\\"', '"').replace("\\\\", "\\"))
        table[rec["cat"]] = rec
    if len(table) < 150:
        raise vlib.ModelFailure("IprVisitorMC printed only %d categories" % len(table))
    # a category the specification does not know (a node kind added to the library after the Super table was written) is not judged:
    # the specification says nothing about it; it is listed in the evidence
    unknown = sorted({e["cat"] for e in events if e.get("e") == "visit" and e["cat"] not in table})
    if unknown:
        events = [e for e in events if not (e.get("e") == "visit" and e["cat"] in unknown)]
        with open(tp, "w") as fh:
            fh.write("".join(json.dumps(e) + "\n" for e in events))
    violations = []
    by_cat = {}
    seen = set()
    crash = [e for e in events if e.get("e") in ("Crash", "Sanitizer")]
    for e in events:
        if e.get("e") != "visit":
            continue
        by_cat.setdefault(e["cat"], []).append(e)
        want = table.get(e["cat"])
        why = None
        if want is None:
            why = "category %s has no interface class" % e["cat"]
        elif e["hooks"] != want["chain"]:
            why = "hooks %s, specification demands %s" % (e["hooks"], want["chain"])
        elif e["entries"] != 1:
            why = "accept entered %d hooks" % e["entries"]
        elif e["handed_other_object"] != 0:
            why = "%d of the hooks %s were handed another object than the node accept() was called on" % (e["handed_other_object"], e["hooks"])
        elif e["views"] != [e["cat"]]:
            why = "view<K> yields the node for K in %s" % e["views"]
        elif e["sink"] != want["sink"]:
            why = "a sinks-only visitor received it in %s, not %s" % (e["sink"], want["sink"])
        elif e["nested"] != e["nestdepth"] or e["strays"] != 0:
            why = "accept entered again from inside its hook, %d levels deep, reached the node's own hook %d times and another " \
                  "hook %d times" % (e["nestdepth"], e["nested"], e["strays"])
        elif e["innerviews"] != [e["cat"]]:
            why = "view<K> asked from the innermost of %d nested hooks yields the node for K in %s" % (e["nestdepth"], e["innerviews"])
        if why:
            key = "%s:%s" % (e["cat"], e["impl"])
            if key in seen:
                continue
            seen.add(key)
            path = vlib.save_replay(pid, "%s.json" % e["cat"], json.dumps(e) + "\n")
            violations.append((key, "%s (%s, obtained by %s): %s" % (e["cat"], e["impl"], e["how"], why), path))
    for c in crash:
        violations.append(("crash", "the zoo crashed: %s" % json.dumps(c)[:300], vlib.save_replay(pid, "crash.json", json.dumps(c))))
    # binding B: the same lines through the trace spec
    tr = vlib.validate_trace_resync("IprVisitorTrace", tp, (), pid, 6, lambda ev: False, None, 900)
    for (lineno, line, prefix) in tr["rejections"][:5]:
        ev = json.loads(line) if line.startswith("{") else {}
        key = "trace:%s:%s" % (ev.get("cat"), ev.get("impl"))
        if ("%s:%s" % (ev.get("cat"), ev.get("impl"))) in seen:
            continue
        violations.append((key, "line %d rejected by IprVisitorTrace: %s" % (lineno, line[:300]),
                           vlib.save_replay(pid, "trace-%d.json" % lineno, line + "\n")))
    missing = sorted(set(table) - set(by_cat))
    impls = sorted({e["impl"] for e in events if e.get("e") == "visit"})
    coverage = {
        "states": res.distinct + tr["states"], "transitions": max(res.generated, 1) + tr["transitions"],
        "traces_validated_against_impl": len([e for e in events if e.get("e") == "visit"]) - len(violations),
        "evaluations": len(events) * (2 + len(table)),
        "distinct_nontrivial": len({(e["cat"], e["impl"]) for e in events if e.get("e") == "visit"}),
        "rule": "one instance of every implementation class obtainable for every interface category (factories, unified "
                "constructors, declarations, scopes/regions/overloads of every flavour, constants, companions; Comment and "
                "Annotation constructed directly). Per instance: category, hooks reached by a recording visitor that overrides "
                "nothing, number of hooks accept() enters, the sink a sinks-only visitor gets, view<K> for all 159 K, and the same "
                "with accept() entered again from inside the hook it called, 301 levels deep (as a recursive visitor does). "
                "distinct_nontrivial = distinct (category, implementation class) pairs.",
        "samples": [e for e in events if e.get("e") == "visit"][100:103],
        "exhaustive": True, "exhaustive_scope": "all %d interface categories that have a class; categories without an instance: %s" % (len(table), missing),
        "categories_unknown_to_the_specification": unknown,
        "categories_covered": len(by_cat), "implementation_classes": len(impls), "categories_without_instance": missing,
    }
    if missing and not violations:
        # (a category without an instance and no violation: the sweep is incomplete; with violations, the missing category is
        #  most likely the very node that reports a wrong code, and the violation is the verdict)
        raise vlib.ModelFailure("zoo has no instance of %s" % missing)
    return {"coverage": coverage, "violations": violations,
            "assumptions": ["the Super table of spec/IprVisitor.tla was transcribed from the class heads at the pinned commit"]}


def replay(pid, path):
    r = run(pid, "quick", 1)
    want = json.load(open(path)) if path.endswith(".json") else {}
    for key, text, p in r["violations"]:
        if key.startswith(str(want.get("cat")) + ":") or not want:
            print("VIOLATION property=%s replay=%s" % (pid, path))
            return 1
    print("replay accepted")
    return 0
