"""C14 and C15 — decided with spec/IprSeq*.tla (sequence implementations, derived operations, equalities, Optional);
C14 additionally re-uses the link part of the IprMake sweep (reading a link that was never set is refused)."""
import json
import os
from concurrent.futures import ThreadPoolExecutor

import vlib
import p_make

C14_FIELDS = {"first", "atrev", "at", "atmax", "huge", "hat", "iter", "riter", "post", "rpost", "fwalk", "rwalk"}       # refusal beyond size(), iteration inside the bounds
C15_FIELDS = {"first", "atrev", "size", "empty", "steps", "hsize", "hat", "iter", "riter", "post", "rpost", "fwalk", "rwalk", "eqd", "eqo", "bend"}


C09_FIELDS = {"first", "atrev", "size", "at", "hat", "hsize", "iter", "riter", "post", "rpost", "fwalk", "rwalk"}   # the product type lists its members' types in order


def mine(pid, field, kind=""):
    if pid == "C14":
        return field in C14_FIELDS
    if pid == "C09":
        return kind.startswith("typed_sequence") and field in C09_FIELDS
    return field in C15_FIELDS or field == "at"


def run(pid, tier, seed):
    q = tier == "quick"
    exe = vlib.build_harness("seqs", ["seqs.cxx"])
    exe_asan = vlib.build_harness("seqs", ["seqs.cxx"], cfg="asan")
    tdir = vlib.trace_dir()
    os.makedirs(tdir, exist_ok=True)
    tps = []
    for name, e in (("plain", exe), ("asan", exe_asan)):
        tp = os.path.join(tdir, "%s-%s-%s.ndjson" % (pid, tier, name))
        vlib.record_trace(e, ["record"], tp)
        tps.append(tp)

    def gen():
        return vlib.generate_and_replay("IprSeqMC", pid, {"MaxLen": 36 if q else 70}, exe, ("replay",), ["Sane"], (), 2, 1200)

    def gen_iter(n):
        # spec/IprIter.tla: every sequence of iterator operations of the given depth on a sequence of n elements
        return vlib.generate_and_replay("IprIterMC", "%s-iter%d" % (pid, n), {"N": n, "Slack": 2, "Depth": 4 if q else 5},
                                        exe, ("replay-iter", str(n)), ["ItInvariant"], (), 4, 1200)

    with ThreadPoolExecutor(max_workers=6) as ex:
        itf = [ex.submit(gen_iter, n) for n in ((0, 1, 3) if q else (0, 1, 2, 3, 5))]
        gf = ex.submit(gen)
        tf = [ex.submit(vlib.validate_trace_resync, "IprSeqTrace", tp, (), pid, 12, lambda ev: ev.get("e") == "new", None, 1200)
              for tp in tps]
        mf = ex.submit(p_make.run, "C14", tier, seed) if pid == "C14" else None
        r = gf.result()
        trs = [f.result() for f in tf]
        mk = mf.result() if mf else None
        its = [f.result() for f in itf]

    violations, samples = [], []
    s, t = r["summary"], r["tlc"]
    if s["behaviours"] == 0:
        raise vlib.ModelFailure("no behaviour generated")
    samples.append({"kind": "TLC behaviour: pushes with the expected observation of the sequence after each",
                    "behaviour": json.loads(s["sample"])[:3]})
    foreign = 0
    seen = set()
    for f in r["fails"]:
        fld = f["key"].split(":")[-1]
        if not mine(pid, fld, f.get("kind", "")):
            foreign += 1
            continue
        if f["key"] in seen:
            continue
        seen.add(f["key"])
        path = vlib.save_replay(pid, "seq-%s.json" % f["key"].replace(":", "-").replace("<", "_").replace(">", "_"), json.dumps(f) + "\n")
        violations.append((f["key"], "sequence implementation %s holding %d elements: `%s` must be %s, the library gives %s" % (
            f["kind"], f["len"], fld, f["expected"].get(fld), f["got"].get(fld)), path))
    it_states = it_trans = it_beh = it_steps = 0
    for ir in its:
        isum = ir["summary"]
        if isum["behaviours"] == 0:
            raise vlib.ModelFailure("no iterator behaviour generated")
        it_states += ir["tlc"].distinct
        it_trans += ir["tlc"].generated
        it_beh += isum["behaviours"] - isum["failed"]
        it_steps += isum["steps"]
        for f in ir["fails"]:
            if pid == "C09" and not f.get("kind", "").startswith("typed_sequence"):
                foreign += 1
                continue
            key = "iter:" + f["key"]
            if key in seen:
                continue
            seen.add(key)
            path = vlib.save_replay(pid, "iter-%s.json" % f["key"].replace(":", "-").replace("<", "_").replace(">", "_"), json.dumps(f) + "\n")
            violations.append((key, "iterator over %s holding %d elements, operation %s of %s: specification expects %s, the library "
                                    "gives %s (element numbers from 1, -1 = refused)" % (
                                        f["kind"], f["len"], f["step"], json.dumps([e["op"] for e in f["beh"]]), f["expected"], f["got"]), path))
        if ir["crash"]:
            violations.append(("crash", "library crashed in the iterator sweep", vlib.save_replay(pid, "crash-iter.json", ir["crash"]["beh"])))
    if r["crash"]:
        violations.append(("crash", "library crashed in the sequence sweep", vlib.save_replay(pid, "crash.json", r["crash"]["beh"])))
    states, transitions = t.distinct + it_states, t.generated + it_trans
    lines = 0
    seenk = set()
    nrej = 0
    for tp, tr in zip(tps, trs):
        states += tr["states"]
        transitions += tr["transitions"]
        lines += tr["lines"]
        for (lineno, line, prefix) in tr["rejections"]:
            try:
                ev = json.loads(line)
            except ValueError:
                ev = {}
            kind = ev.get("e")
            if pid == "C09" and kind in ("derived", "equality", "optional", "Crash", "Sanitizer"):
                ok = False
                key = ""
            elif kind in ("derived", "equality"):
                ok = pid == "C15"
                key = "trace:%s:%s" % (kind, ev.get("name", ev.get("sort")))
            elif kind == "optional":
                ok = pid == "C14"
                key = "trace:optional:%s" % ev.get("what")
            elif kind in ("Crash", "Sanitizer"):
                ok = pid in ("C14", "C15")        # (what comes after the recorder died is not judged by anybody: it counts for both)
                key = "trace:%s" % kind
            else:
                first = json.loads(prefix[0]) if prefix else {}
                ok = pid != "C09" or str(first.get("kind", "")).startswith("typed_sequence")
                key = "trace:%s:%s" % (kind, first.get("kind"))
            if not ok:
                foreign += 1
                continue
            nrej += 1
            if key in seenk:
                continue
            seenk.add(key)
            path = vlib.save_replay(pid, "trace-%d.ndjson" % lineno, "\n".join(prefix[-30:]) + "\n")
            violations.append((key, "recorded line %d is not allowed by IprSeqTrace: %s" % (lineno, line[:400]), path))
    head = open(tps[0]).read().splitlines()
    samples.append({"kind": "recorded events", "events": [json.loads(head[2])] + [json.loads(x) for x in head if '"derived"' in x][:2]
                    + [json.loads(x) for x in head if '"optional"' in x][:1]})
    cov = {
        "states": states, "transitions": transitions,
        "traces_validated_against_impl": s["behaviours"] - s["failed"] + it_beh + sum(tr["executions"] for tr in trs) - nrej,
        "evaluations": s["steps"] + it_steps + lines, "distinct_nontrivial": s["classes"],
        "rule": "binding A: the expected observation (size, empty, positional access at 0..size+2 and SIZE_MAX, iteration, "
                "begin-to-end distance, helper size/operator[]) after each of up to %d appends (so that every block, chunk or index structure of an implementation is crossed), replayed on every one of the 25 "
                "sequence implementations/routes (fixed-size ones at their size). A class is implementation x length. IprIter: one iterator "
                "object put through every sequence of %d operations out of ++it, --it, it++, it-- (value used or not), *it, ->, copy, "
                "== begin(), == end() on sequences of %s elements of every implementation (its state is its position: nothing it was "
                "asked before may matter; outside the bounds reading is refused). binding B: "
                "the same for sizes 0,1,3,5,17,40 (positions 2^k + j far beyond the bounds included) plus derived operations (try_block, Udt scope/members, Block body, Template "
                "parameters/result, default_value, Type::linkage, Scope::size), the six equality operators on all pairs of "
                "six values, and Optional::get on empty/valid values; once plain, once under ASan/UBSan." % (36 if q else 70, 4 if q else 5, "0, 1, 3" if q else "0, 1, 2, 3, 5"),
        "samples": samples, "exhaustive": True, "exhaustive_scope": "all implementations x lengths 0..%d" % (36 if q else 70),
        "failures_attributed_to_other_properties": foreign, "recorded_events": lines,
    }
    assumptions = ["Sequence::get is protected: positional access goes through position(i) / operator[] of the owning node"]
    if mk:
        mc = mk["coverage"]
        cov["states"] += mc["states"]
        cov["transitions"] += mc["transitions"]
        cov["traces_validated_against_impl"] += mc["traces_validated_against_impl"]
        cov["evaluations"] += mc["evaluations"]
        cov["distinct_nontrivial"] += mc["distinct_nontrivial"]
        cov["link_sweep"] = {k: mc[k] for k in ("sweep_behaviours", "sweep_fail_keys", "recorded_events")}
        cov["rule"] += " C14 also takes the IprMake sweep: every accessor of every factory-built node in every subset of its " \
                       "settable links; a link never set must be refused with std::logic_error (value -1), never answered, " \
                       "never another exception (-8), never a crash."
        violations += mk["violations"]
        assumptions += mk["assumptions"]
    return {"coverage": cov, "violations": violations, "assumptions": assumptions}


def replay(pid, path):
    if "seq-" in os.path.basename(path) or "trace-" in os.path.basename(path):
        r = run(pid, "quick", 1)
        print("VIOLATION property=%s replay=%s" % (pid, path) if r["violations"] else "replay accepted")
        return 1 if r["violations"] else 0
    return p_make.replay(pid, path)
