"""Extra conformance (not a listed property): the reference renderer spec/IprRender.tla against the XPR printer, for the
types, names and atoms of IprUnify."""
import json

import vlib
import p_unify
from vlib import tla_set


def run(name, tier, seed):
    exe = vlib.build_harness("unify", ["unify.cxx"])
    q = tier == "quick"
    bc = p_unify.base_consts
    J = [("types", bc(["get_pointer", "get_reference", "get_rvalue_reference", "get_qualified", "get_array", "get_product", "get_function",
                       "get_function_e", "get_ptr_to_member"], 3 if q else 4, types=(12, 3) if q else (12,), exprs=(27,), quals=(1, 6), maxseq=2)),
         ("compound", bc(["get_forall", "get_tor", "get_sum", "get_product", "get_as_type", "get_decltype", "get_pointer", "get_function"],
                         3 if q else 4, types=(12,), exprs=(27, 29), maxseq=1, prelude="PreludeCompound")),
         ("names", bc(["get_identifier", "get_operator", "get_suffix", "get_conversion", "get_ctor_name", "get_dtor_name", "get_as_type_id",
                       "get_pointer"], 3, types=(12,), ids=(49,), words=("foo", "+", "new[]", "int"))),
         ("atoms", bc(["get_symbol", "get_label", "get_this", "get_literal", "get_array", "get_as_type", "get_identifier"],
                      3, types=(12,), ids=(49, 67), words=("foo", "x1"), prelude="PreludeAtoms")),
         ("xfer", bc(["get_function_x", "get_function_ex", "get_as_type_x", "get_qualified"], 2 if q else 3, types=(12,), exprs=(27, 28),
                     prelude="PreludeXfer"))]
    deviations, per_job = [], {}
    states = transitions = beh = steps = failed = compared = 0
    classes, seen, sample = set(), set(), None
    from concurrent.futures import ThreadPoolExecutor

    def gen(j):
        return vlib.generate_and_replay("IprRenderMC", "%s-%s" % (name, j[0]), j[1], exe, ("replay-render",), ["UInvariant"], (), 4, 3000,
                                        "6g", "Spec", "EmitR")

    with ThreadPoolExecutor(max_workers=5) as ex:
        rs = list(ex.map(gen, J))
    for r in rs:
        t, s = r["tlc"], r["summary"]
        states += t.distinct
        transitions += t.generated
        beh += s["behaviours"]
        steps += s["steps"]
        failed += s["failed"]
        compared += s.get("compared", 0)
        classes.update(s.get("class_list", []))
        per_job[r["name"]] = {k: s.get(k) for k in ("behaviours", "failed", "fail_keys", "compared")}
        if s["behaviours"] == 0:
            raise vlib.ModelFailure("no behaviour for %s" % r["name"])
        sample = sample or json.loads(s["sample"])[-2:]
        for f in r["fails"]:
            if f["key"] in seen:
                continue
            seen.add(f["key"])
            path = vlib.save_replay(name, "%s.ndjson" % f["key"].replace(":", "-"), "\n".join(json.dumps(e) for e in f["beh"]) + "\n")
            deviations.append((f["key"], "after %s (step %s): IprRender expects %s, the printer gave %s" % (
                json.dumps(f["beh"][-1]), f["step"], json.dumps(f["expected"]), json.dumps(f["got"])), path))
        if r["crash"]:
            deviations.append(("crash", "library crashed printing", vlib.save_replay(name, "crash-%s.ndjson" % r["name"], r["crash"]["beh"])))
    if compared == 0:
        raise vlib.ModelFailure("no text was compared")
    coverage = {"states": states, "transitions": transitions, "traces_validated_against_impl": beh - failed, "evaluations": compared,
                "distinct_nontrivial": len(classes), "classes": sorted(classes), "jobs": per_job,
                "rule": "every behaviour of the job alphabets; after each call the returned entity is printed by a fresh Printer "
                        "(xpr_type for types, xpr_expr otherwise) and the bytes (or the refusal) are compared with IprRender",
                "samples": [{"kind": "last steps of a TLC behaviour with the expected text", "steps": sample}]}
    return {"coverage": coverage, "deviations": deviations}
