"""Extra conformance (not a listed property): the reference renderer for statements, spec/IprStmtRender.tla."""
import json

import vlib
from vlib import tla_set


def run(name, tier, seed):
    exe = vlib.build_harness("printer", ["printer.cxx"])
    q = tier == "quick"
    consts = {"Depth": 2, "Leaves": tla_set(["decl", "fun", "arr", "class", "enum"] if q else ["expr", "decl", "break", "return", "fun", "arr", "class", "enum"]),
              "Unary": tla_set(["if", "while", "do", "switch", "for", "forin", "labeled"]), "MaxBlock": 1}
    r = vlib.generate_and_replay("IprStmtRenderMC", name, consts, exe, ("replay-render",), (), (), 6, 3000, "8g", "Spec", "EmitR")
    s, t = r["summary"], r["tlc"]
    if s["behaviours"] == 0:
        raise vlib.ModelFailure("no tree generated")
    deviations, seen = [], set()
    for f in r["fails"]:
        if f["key"] in seen:
            continue
        seen.add(f["key"])
        path = vlib.save_replay(name, "%s.json" % f["key"].replace(":", "-"), json.dumps(f["beh"][0]) + "\n")
        deviations.append((f["key"], "program %s: IprStmtRender expects %r, the printer wrote %r" % (
            json.dumps(f["beh"][0]), f["expected"], f["got"]), path))
    if r["crash"]:
        deviations.append(("crash", "library crashed printing %s" % r["crash"]["beh"][:300], vlib.save_replay(name, "crash.json", r["crash"]["beh"])))
    coverage = {"states": t.distinct, "transitions": max(t.generated, 1), "traces_validated_against_impl": s["behaviours"] - s["failed"],
                "evaluations": s["behaviours"], "distinct_nontrivial": s["classes"], "fail_keys": s["fail_keys"],
                "rule": "every statement tree of nesting depth 2 over the statement constructs and the stated leaves: built, printed by "
                        "xpr_stmt with a fresh Printer, and compared byte for byte with IprStmtRender (padding, pending indentation, "
                        "newline flag, numbering of names in construction order)",
                "samples": [{"kind": "program and expected text", "case": json.loads(s["sample"])}]}
    return {"coverage": coverage, "deviations": deviations}
