// Harness for spec/IprUnits*.tla (translation units and modules; growth of the specification beyond the listed
// properties).
//   units replay                              stdin: TLC behaviours (binding A)
//   units record --seed S --runs R --len L    stdout: ndjson trace of random histories (binding B)
#include <algorithm>
#include <cstdio>
#include <cstdlib>
#include <deque>
#include <iostream>
#include <map>
#include <memory>
#include <random>
#include <set>
#include <unistd.h>
#include "world.hpp"

using vj::Value;
namespace impl = ipr::impl;

namespace {
   constexpr int NDecl = 3, NIdent = 3;

   // enters every hook, then runs the library's default
   struct UnitRecorder : ipr::Translation_unit::Visitor {
      std::vector<std::string> hooks;
      void visit(const ipr::Translation_unit&) override { hooks.push_back("Translation_unit"); }
      void visit(const ipr::Module_unit& u) override { hooks.push_back("Module_unit"); ipr::Translation_unit::Visitor::visit(u); }
      void visit(const ipr::Interface_unit& u) override { hooks.push_back("Interface_unit"); ipr::Translation_unit::Visitor::visit(u); }
   };

   struct Stage {
      impl::Lexicon lex;
      impl::Translation_unit base { lex };                  // hosts the declaration pool; not one of the observed units
      std::deque<impl::Translation_unit> plain;
      std::deque<impl::Module> modules;
      std::vector<const ipr::Translation_unit*> units;      // creation order; [0] unused
      std::vector<impl::Module*> mods;
      std::map<const ipr::Translation_unit*, int> unit_id;
      std::map<const ipr::Module*, int> mod_id;
      std::map<const ipr::Namespace*, int> ns_id;
      std::vector<const ipr::Decl*> decls;
      std::vector<const ipr::Identifier*> idents;
      std::map<const ipr::Decl*, int> decl_id;
      std::map<const ipr::Identifier*, int> ident_id;

      Stage()
      {
         units.push_back(nullptr);
         mods.push_back(nullptr);
         decls.push_back(nullptr);
         idents.push_back(nullptr);
         for (int k = 1; k <= NIdent; ++k) {
            idents.push_back(&lex.get_identifier(vh::u8("stem" + std::to_string(k))));
            ident_id[idents.back()] = k;
         }
         for (int k = 1; k <= NDecl; ++k) {
            decls.push_back(base.global_scope()->make_var(lex.get_identifier(vh::u8("d" + std::to_string(k))), lex.int_type()));
            decl_id[decls.back()] = k;
         }
      }

      void add_unit(const ipr::Translation_unit& u)
      {
         units.push_back(&u);
         unit_id[&u] = static_cast<int>(units.size()) - 1;
         ns_id[&u.global_namespace()] = unit_id[&u];
      }

      template<class U> U& unit_as(int u)
      {
         auto p = dynamic_cast<const U*>(units.at(static_cast<std::size_t>(u)));
         if (p == nullptr) throw vh::HarnessError("unit " + std::to_string(u) + " has the wrong kind");
         return const_cast<U&>(*p);
      }

      void call(const std::string& op, const std::vector<long>& a)
      {
         if (op == "new_unit") { plain.emplace_back(lex); add_unit(plain.back()); }
         else if (op == "new_module") {
            modules.emplace_back(lex);
            mods.push_back(&modules.back());
            mod_id[mods.back()] = static_cast<int>(mods.size()) - 1;
            add_unit(modules.back().interface_unit());
         }
         else if (op == "make_unit") add_unit(*mods.at(static_cast<std::size_t>(a.at(0)))->make_unit());
         else if (op == "import") {
            auto& m = *mods.at(static_cast<std::size_t>(a.at(1)));
            auto u = units.at(static_cast<std::size_t>(a.at(0)));
            if (auto p = dynamic_cast<const impl::Translation_unit*>(u)) const_cast<impl::Translation_unit*>(p)->imports()->push_back(&m);
            else if (auto q = dynamic_cast<const impl::Module_unit*>(u)) const_cast<impl::Module_unit*>(q)->imports()->push_back(&m);
            else const_cast<impl::Interface_unit&>(dynamic_cast<const impl::Interface_unit&>(*u)).imports()->push_back(&m);
         }
         else if (op == "own") {
            auto u = units.at(static_cast<std::size_t>(a.at(0)));
            auto d = decls.at(static_cast<std::size_t>(a.at(1)));
            if (auto q = dynamic_cast<const impl::Module_unit*>(u)) const_cast<impl::Module_unit*>(q)->owned_decls.push_back(d);
            else const_cast<impl::Interface_unit&>(dynamic_cast<const impl::Interface_unit&>(*u)).owned_decls.push_back(d);
         }
         else if (op == "export_module")
            unit_as<impl::Interface_unit>(static_cast<int>(a.at(0))).modules_exported.push_back(mods.at(static_cast<std::size_t>(a.at(1))));
         else if (op == "export_decl")
            unit_as<impl::Interface_unit>(static_cast<int>(a.at(0))).decls_exported.push_back(decls.at(static_cast<std::size_t>(a.at(1))));
         else if (op == "stem")
            mods.at(static_cast<std::size_t>(a.at(0)))->stems.components.push_back(idents.at(static_cast<std::size_t>(a.at(1))));
         else throw vh::HarnessError("unknown operation " + op);
      }

      template<class T, class M> Value ids_of(const ipr::Sequence<T>& s, const M& m)
      {
         auto a = Value::array();
         for (auto& x : s) {
            auto it = m.find(&x);
            a.push(static_cast<long>(it == m.end() ? -2 : it->second));
         }
         // the derived operations agree with the walk
         if (static_cast<std::size_t>(s.size()) != a.size()) a.push(-3L);
         for (std::size_t k = 0; k < a.size() and k < static_cast<std::size_t>(s.size()); ++k) {
            auto it = m.find(&*s.position(k));
            if ((it == m.end() ? -2 : it->second) != a.at(k).as_int()) a.push(-4L);
         }
         return a;
      }

      Value obs_unit(int u)
      {
         auto& tu = *units.at(static_cast<std::size_t>(u));
         auto o = Value::object();
         UnitRecorder rec;
         tu.accept(rec);
         auto hooks = Value::array();
         for (auto& h : rec.hooks) hooks.push(h);
         std::string kind = "tu";
         long parent = 0;
         auto purview = Value::array(), xmods = Value::array(), xdecls = Value::array();
         if (auto iu = dynamic_cast<const ipr::Interface_unit*>(&tu)) {
            kind = "iu";
            xmods = ids_of(iu->exported_modules(), mod_id);
            xdecls = ids_of(iu->exported_declarations(), decl_id);
         }
         if (auto mu = dynamic_cast<const ipr::Module_unit*>(&tu)) {
            if (kind == "tu") kind = "mu";
            auto it = mod_id.find(&mu->parent_module());
            parent = it == mod_id.end() ? -2 : it->second;
            purview = ids_of(mu->purview(), decl_id);
         }
         // the global namespace: this unit's own, unnamed, typed `namespace`, its region global and owned by it
         auto& ns = tu.global_namespace();
         long nsv = -2;
         auto it = ns_id.find(&ns);
         if (it != ns_id.end()) nsv = it->second;
         auto& nm = ns.name();
         auto idn = dynamic_cast<const ipr::Identifier*>(&nm);
         if (idn == nullptr or idn->string().size() != 0) nsv = -5;
         else if (&ns.type() != &lex.namespace_type()) nsv = -6;
         else if (not ns.region().global()) nsv = -7;
         else if (not ns.region().owner().is_valid() or &ns.region().owner().get() != &ns) nsv = -8;
         o.set("kind", kind).set("hooks", hooks).set("parent", parent).set("imports", ids_of(tu.imported_modules(), mod_id))
            .set("purview", purview).set("xmods", xmods).set("xdecls", xdecls).set("ns", nsv);
         return o;
      }

      Value obs_mod(int m)
      {
         auto& md = *mods.at(static_cast<std::size_t>(m));
         const ipr::Module& im = md;
         auto o = Value::object();
         auto it = unit_id.find(&im.interface_unit());
         // implementation units, as translation units
         auto impls = Value::array();
         for (auto& u : im.implementation_units()) {
            auto jt = unit_id.find(&u);
            impls.push(static_cast<long>(jt == unit_id.end() ? -2 : jt->second));
         }
         if (static_cast<std::size_t>(im.implementation_units().size()) != impls.size()) impls.push(-3L);
         o.set("stems", ids_of(im.name().stems(), ident_id)).set("iface", static_cast<long>(it == unit_id.end() ? -2 : it->second))
            .set("impls", impls);
         return o;
      }

      Value obs()
      {
         auto us = Value::array(), ms = Value::array();
         for (std::size_t u = 1; u < units.size(); ++u) us.push(obs_unit(static_cast<int>(u)));
         for (std::size_t m = 1; m < mods.size(); ++m) ms.push(obs_mod(static_cast<int>(m)));
         auto o = Value::object();
         o.set("units", us).set("mods", ms);
         return o;
      }
   };

   std::vector<long> ints(const Value& v)
   {
      std::vector<long> r;
      for (auto& x : *v.a) r.push_back(x.as_int());
      return r;
   }

   std::string tlc_unescape(const std::string& line)
   {
      auto b = line.find("\", \"");
      auto e = line.rfind("\">>");
      if (b == std::string::npos or e == std::string::npos) return { };
      std::string out;
      for (std::size_t k = b + 4; k < e; ++k) {
         if (line[k] == '\\' and k + 1 < e) { out += line[k + 1]; ++k; }
         else out += line[k];
      }
      return out;
   }
   struct LastBeh {
      FILE* f = nullptr;
      LastBeh() { if (auto p = std::getenv("VERIF_LASTBEH")) f = std::fopen(p, "w"); }
      void note(const std::string& text)
      {
         if (f == nullptr) return;
         std::rewind(f);
         std::fwrite(text.data(), 1, text.size(), f);
         std::fputc('\n', f);
         std::fflush(f);
         if (ftruncate(fileno(f), static_cast<off_t>(text.size() + 1)) != 0) { }
      }
   };

   int do_replay()
   {
      std::ios::sync_with_stdio(false);
      std::string line;
      LastBeh lastbeh;
      long behaviours = 0, steps = 0, failed = 0, printed = 0;
      std::set<std::string> classes;
      std::map<std::string, long> fail_keys;
      std::string sample;
      while (std::getline(std::cin, line)) {
         std::string text = line.rfind("<<\"BEH\"", 0) == 0 ? tlc_unescape(line) : line;
         if (text.empty() or text[0] != '[') continue;
         Value beh = vj::parse(text);
         lastbeh.note(text);
         ++behaviours;
         if (sample.empty() or behaviours == 200) sample = text;
         Stage st;
         std::size_t k = 0;
         for (auto& h : *beh.a) {
            ++k; ++steps;
            auto& ev = h.at("ev");
            auto op = ev.at("op").as_str();
            st.call(op, ints(ev.at("a")));
            classes.insert(op);
            Value got = st.obs();
            auto& exp = h.at("o");
            std::string why;
            for (auto part : {"units", "mods"}) {
               auto& e = exp.at(part);
               auto& g = got.at(part);
               if (e.size() != g.size()) { if (why.empty()) why = std::string(part) + ".count"; continue; }
               for (std::size_t j = 0; j < e.size(); ++j)
                  for (auto& kv : *e.at(j).o)
                     if (why.empty() and not vj::equal(kv.second, g.at(j).at(kv.first))) why = std::string(part) + "." + kv.first;
            }
            if (not why.empty()) {
               ++failed;
               auto key = op + ":" + why;
               ++fail_keys[key];
               if (printed++ < 20) {
                  auto f = Value::object();
                  auto pre = Value::array();
                  for (std::size_t j = 0; j < k; ++j) pre.push((*beh.a)[j].at("ev"));
                  f.set("key", key).set("step", static_cast<long>(k)).set("expected", exp).set("got", got).set("beh", pre);
                  std::cout << "FAIL " << vj::dump(f) << "\n";
               }
               break;
            }
         }
      }
      auto s = Value::object();
      auto fk = Value::object();
      for (auto& kv : fail_keys) fk.set(kv.first, kv.second);
      s.set("behaviours", behaviours).set("steps", steps).set("failed", failed).set("fail_keys", fk)
         .set("classes", static_cast<long>(classes.size())).set("sample", sample);
      std::cout << "SUMMARY " << vj::dump(s) << "\n";
      return 0;
   }

   int do_record(int argc, char** argv)
   {
      unsigned long seed = 1;
      int runs = 3, len = 60;
      for (int k = 2; k + 1 < argc; k += 2) {
         std::string f = argv[k], v = argv[k + 1];
         if (f == "--seed") seed = std::stoul(v);
         else if (f == "--runs") runs = std::stoi(v);
         else if (f == "--len") len = std::stoi(v);
      }
      std::mt19937_64 g { seed };
      auto below = [&](int n) { return static_cast<long>(g() % static_cast<unsigned long>(n)); };
      const std::vector<std::string> ops { "new_unit", "new_module", "make_unit", "import", "import", "own", "own", "export_module",
                                           "export_decl", "stem" };
      for (int run = 0; run < runs; ++run) {
         auto r = Value::object();
         r.set("op", "reset").set("a", Value::array()).set("o", Value::object());
         std::cout << vj::dump(r) << "\n";
         Stage st;
         for (int k = 0; k < len; ++k) {
            auto op = ops[static_cast<std::size_t>(below(static_cast<int>(ops.size())))];
            int nu = static_cast<int>(st.units.size()) - 1, nm = static_cast<int>(st.mods.size()) - 1;
            std::vector<long> a;
            auto pick_unit = [&](auto pred) -> long {
               std::vector<long> c;
               for (int u = 1; u <= nu; ++u) if (pred(st.units[static_cast<std::size_t>(u)])) c.push_back(u);
               return c.empty() ? 0 : c[static_cast<std::size_t>(below(static_cast<int>(c.size())))];
            };
            if (op == "new_unit" or op == "new_module") { if (nu >= 9) continue; }
            else if (op == "make_unit") { if (nm == 0 or nu >= 9) continue; a = { 1 + below(nm) }; }
            else if (op == "import") { if (nm == 0 or nu == 0) continue; a = { 1 + below(nu), 1 + below(nm) }; }
            else if (op == "own") {
               long u = pick_unit([](const ipr::Translation_unit* t) { return dynamic_cast<const ipr::Module_unit*>(t) != nullptr; });
               if (u == 0) continue;
               a = { u, 1 + below(NDecl) };
            }
            else if (op == "export_module" or op == "export_decl") {
               long u = pick_unit([](const ipr::Translation_unit* t) { return dynamic_cast<const ipr::Interface_unit*>(t) != nullptr; });
               if (u == 0) continue;
               a = { u, 1 + below(op == "export_module" ? nm : NDecl) };
            }
            else if (op == "stem") { if (nm == 0) continue; a = { 1 + below(nm), 1 + below(NIdent) }; }
            st.call(op, a);
            auto ev = Value::object();
            auto av = Value::array();
            for (auto x : a) av.push(x);
            ev.set("op", op).set("a", av).set("o", st.obs());
            std::cout << vj::dump(ev) << "\n";
         }
      }
      return 0;
   }
}

int main(int argc, char** argv)
{
   std::string mode = argc > 1 ? argv[1] : "";
   try {
      if (mode == "replay") return do_replay();
      if (mode == "record") return do_record(argc, argv);
   }
   catch (const std::logic_error& e) {
      // the library throws logic errors, the harness run-time errors: one that arrives here escaped from a call of the library
      // where the harness expected none -- recorded like a crash (a terminal event), not as a failure of the harness
      std::cout.flush();
      std::cerr << "exception of the library escaped: " << e.what() << "\n";
      std::abort();
   }
   catch (const std::exception& e) {
      std::cout << "HARNESS-ERROR " << e.what() << "\n";
      return 2;
   }
   return 2;
}
