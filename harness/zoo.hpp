// The zoo: one instance of every implementation class the library ships for every interface category.
#ifndef VERIF_ZOO_HPP
#define VERIF_ZOO_HPP
#include <set>
#include "maker.hpp"

namespace vm {
   struct Zoo {
      Maker mk;
      std::vector<std::pair<const ipr::Node*, std::string>> all;     // instance, how it was obtained
      std::set<const ipr::Node*> seen;
      void add(const ipr::Node& n, const std::string& how)
      {
         if (seen.insert(&n).second) all.emplace_back(&n, how);
      }
      template<class F> void tryadd(const std::string& how, F f)
      {
         try { add(f(), how); } catch (const std::logic_error&) { }
      }

      // companions reachable through the public interface from a node
      void companions(const ipr::Node& n, const std::string& how)
      {
         if (auto t = dynamic_cast<const ipr::Type*>(&n)) {
            tryadd(how + ".name", [&]() -> const ipr::Node& { return t->name(); });
            tryadd(how + ".type", [&]() -> const ipr::Node& { return t->type(); });
         }
         if (auto e = dynamic_cast<const ipr::Expr*>(&n))
            tryadd(how + ".type", [&]() -> const ipr::Node& { return e->type(); });
         auto region = [&](const ipr::Region& r, const std::string& h) {
            add(r, h);
            add(r.bindings(), h + ".bindings");
            tryadd(h + ".bindings.type", [&]() -> const ipr::Node& { return r.bindings().type(); });
         };
         if (auto c = dynamic_cast<const ipr::Class*>(&n)) region(c->region(), how + ".region");
         if (auto c = dynamic_cast<const ipr::Union*>(&n)) region(c->region(), how + ".region");
         if (auto c = dynamic_cast<const ipr::Namespace*>(&n)) region(c->region(), how + ".region");
         if (auto c = dynamic_cast<const ipr::Closure*>(&n)) region(c->region(), how + ".region");
         if (auto c = dynamic_cast<const ipr::Enum*>(&n)) region(c->region(), how + ".region");
         if (auto b = dynamic_cast<const ipr::Block*>(&n)) region(b->region(), how + ".region");
         if (auto m = dynamic_cast<const ipr::Mapping*>(&n)) { add(m->parameters(), how + ".parameters"); region(m->parameters().region(), how + ".parameters.region"); }
         if (auto m = dynamic_cast<const ipr::Lambda*>(&n)) { add(m->parameters(), how + ".parameters"); region(m->parameters().region(), how + ".parameters.region"); }
         if (auto m = dynamic_cast<const ipr::Requires*>(&n)) { add(m->parameters(), how + ".parameters"); region(m->parameters().region(), how + ".parameters.region"); }
         if (auto p = dynamic_cast<const ipr::Phased_evaluation*>(&n)) add(p->expression(), how + ".expression");
         if (auto w = dynamic_cast<const impl::Where*>(&n)) region(w->region, how + ".region(impl)");
      }

      void build()
      {
         auto& w = mk.w;
         auto& lx = w.lex;
         // constants and the operand pool
         for (int id = 1; id < w.next_id(); ++id)
            if (w.ent(id).kind == vh::K_node) add(*w.ent(id).node, "constant-or-pool#" + std::to_string(id));
         // every generative factory, first candidate operands
         for (auto& fi : Maker::factory_table()) {
            std::vector<int> a;
            for (auto s : fi.params) { auto& cs = Maker::candidates().at(s); a.push_back(cs.front()); }
            Made m;
            if (mk.make(fi.op, a, m) and w.ent(m.id).kind == vh::K_node) add(*w.ent(m.id).node, fi.op);
         }
         // unified constructors
         auto& i = lx.int_type();
         impl::Warehouse<ipr::Type> wh;
         wh.push_back(i);
         auto& prod = lx.get_product(wh);
         auto& sum = lx.get_sum(wh);
         auto& java = lx.get_transfer_from_linkage(lx.get_linkage(u8"Java"));
         auto& id = lx.get_identifier(u8"zoo");
         add(lx.get_pointer(i), "get_pointer"); add(lx.get_reference(i), "get_reference");
         add(lx.get_rvalue_reference(i), "get_rvalue_reference"); add(lx.get_array(i, lx.false_value()), "get_array");
         add(lx.get_qualified(lx.const_qualifier(), i), "get_qualified"); add(prod, "get_product"); add(sum, "get_sum");
         add(lx.get_function(prod, i), "get_function"); add(lx.get_function(prod, i, java), "get_function(transfer)");
         add(lx.get_forall(prod, i), "get_forall"); add(lx.get_ptr_to_member(i, i), "get_ptr_to_member");
         add(lx.get_tor(prod, sum), "get_tor"); add(lx.get_as_type(lx.false_value()), "get_as_type(expr)");
         add(lx.get_as_type(lx.false_value(), java), "get_as_type(expr, transfer)"); add(lx.get_as_type(id), "get_as_type(identifier)");
         add(lx.get_decltype(lx.false_value()), "get_decltype"); add(lx.get_auto(), "get_auto");
         add(lx.get_string(u8"dynamic"), "get_string(dynamic)"); add(lx.get_string(u8""), "get_string(empty)");
         add(lx.get_string(u8"int"), "get_string(reserved)"); add(id, "get_identifier"); add(lx.get_identifier(u8"int"), "get_identifier(reserved)");
         add(lx.get_operator(u8"+"), "get_operator"); add(lx.get_suffix(id), "get_suffix"); add(lx.get_conversion(i), "get_conversion");
         add(lx.get_ctor_name(i), "get_ctor_name"); add(lx.get_dtor_name(i), "get_dtor_name");
         add(lx.get_symbol(id, i), "get_symbol"); add(lx.get_label(id), "get_label"); add(lx.get_this(i), "get_this");
         add(lx.get_literal(i, u8"7"), "get_literal");
         auto el = lx.make_expr_list();
         add(lx.get_template_id(lx.false_value(), *el), "get_template_id");
         // declarations of every kind, overload sets, homogeneous scopes
         auto sc = w.unit.global_scope();
         add(*sc->make_var(id, i), "make_var"); add(*sc->make_field(lx.get_identifier(u8"f"), i), "make_field");
         add(*sc->make_bitfield(lx.get_identifier(u8"b"), i), "make_bitfield");
         add(*sc->make_typedecl(lx.get_identifier(u8"t"), lx.class_type()), "make_typedecl");
         add(*sc->make_alias(lx.get_identifier(u8"a"), lx.false_value()), "make_alias");
         add(*sc->make_fundecl(lx.get_identifier(u8"g"), lx.get_function(prod, i)), "make_fundecl");
         auto tmpl = sc->make_primary_template(lx.get_identifier(u8"T"), lx.get_forall(prod, i));
         add(*tmpl, "make_primary_template");
         add(*sc->make_secondary_template(lx.get_identifier(u8"S"), lx.get_forall(prod, i)), "make_secondary_template");
         add(lx.get_guide_name(*tmpl), "get_guide_name");
         // redeclarations (not the masters of their declaration sets), of every kind
         add(*sc->make_var(id, i), "make_var again"); add(*sc->make_field(lx.get_identifier(u8"f"), i), "make_field again");
         add(*sc->make_bitfield(lx.get_identifier(u8"b"), i), "make_bitfield again");
         add(*sc->make_typedecl(lx.get_identifier(u8"t"), lx.class_type()), "make_typedecl again");
         add(*sc->make_alias(lx.get_identifier(u8"a"), lx.false_value()), "make_alias again");
         add(*sc->make_fundecl(lx.get_identifier(u8"g"), lx.get_function(prod, i)), "make_fundecl again");
         add(*sc->make_primary_template(lx.get_identifier(u8"T"), lx.get_forall(prod, i)), "make_primary_template again");
         add(*sc->make_secondary_template(lx.get_identifier(u8"S"), lx.get_forall(prod, i)), "make_secondary_template again");
         if (auto o = (*static_cast<const ipr::Scope*>(sc))[id]; o.is_valid()) add(o.get(), "scope-lookup");
         auto map = lx.make_mapping(*w.unit.global_region(), ipr::Mapping_level{0});
         auto par = map->param(id, i);
         add(*par, "Mapping::param");
         if (auto o = map->parameters().region().bindings()[id]; o.is_valid()) add(o.get(), "parameter-scope-lookup");
         auto en = lx.make_enum(*w.unit.global_region(), ipr::Enum::Kind::Scoped);
         add(*en->add_member(id), "Enum::add_member");
         if (auto o = en->region().bindings()[id]; o.is_valid()) add(o.get(), "enumerator-scope-lookup");
         auto cl = lx.make_class(*w.unit.global_region());
         add(*cl->declare_base(i), "Class::declare_base");
         add(cl->base_subobjects, "Class::bases-region"); add(cl->base_subobjects.bindings(), "Class::bases-scope");
         add(cl->base_subobjects.bindings().type(), "Class::bases-scope.type");
         if (auto o = cl->base_subobjects.bindings()[i.name()]; o.is_valid()) add(o.get(), "bases-scope-lookup");
         auto blk = lx.make_block(*w.unit.global_region()->make_subregion());
         auto h = blk->new_handler(id, i);
         const ipr::Handler& ih = *h;
         add(ih, "Block::new_handler"); add(ih.exception(), "Handler::exception"); add(ih.body(), "Handler::body");
         add(ih.body().region().enclosing(), "Handler eh-region"); add(ih.body().region().enclosing().bindings(), "Handler eh-scope");
         add(ih.body().region().enclosing().bindings().type(), "Handler eh-scope.type");
         if (auto o = ih.body().region().enclosing().bindings()[id]; o.is_valid()) add(o.get(), "eh-scope-lookup");
         add(w.unit.global_namespace(), "global namespace"); add(*w.unit.global_region(), "global region");
         // node classes that no factory builds (or whose factory is declared but not defined): constructed directly
         static std::deque<impl::Comment> comments;
         static std::deque<impl::Annotation> annotations;
         comments.emplace_back(lx.get_string(u8"// comment"));
         add(comments.back(), "impl::Comment{}");
         annotations.emplace_back(lx.get_string(u8"key"), lx.get_literal(i, u8"7"));
         add(annotations.back(), "impl::Annotation{}");
         // companions of everything so far
         auto snapshot = all;
         for (auto& p : snapshot) companions(*p.first, p.second);
      }
   };

}
#endif
