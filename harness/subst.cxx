// Harness for spec/IprSubst*.tla (property C16).
//   subst replay                      stdin: TLC behaviours (binding A)
//   subst record --seed S --runs N --len L    stdout: ndjson trace (binding B)
#include <algorithm>
#include <cstdio>
#include <cstdlib>
#include <iostream>
#include <random>
#include <set>
#include <unistd.h>
#include "world.hpp"

using vj::Value;
namespace impl = ipr::impl;

namespace {
   struct Machine {
      impl::Lexicon lex;
      impl::Translation_unit unit { lex };
      std::vector<const ipr::Expr*> exprs { nullptr };     // 1-based: parameters first, then other values
      int nparam = 0;
      std::vector<const ipr::Substitution*> substs { nullptr };
      std::vector<impl::General_substitution*> general { nullptr };

      Machine(int np, int nv) : nparam{np}
      {
         // parameters of two different mappings (different parameter lists), then plain values
         auto m1 = lex.make_mapping(*unit.global_region(), ipr::Mapping_level{0});
         auto m2 = lex.make_mapping(*unit.global_region(), ipr::Mapping_level{0});   // same level: positions coincide across the two lists
         auto m3 = lex.make_mapping(*unit.global_region(), ipr::Mapping_level{1});   // another level, the same positions again
         for (int k = 0; k < np; ++k) {
            auto& name = lex.get_identifier(vh::u8("p" + std::to_string(k)));
            auto p = (k % 3 == 0 ? m1 : k % 3 == 1 ? m2 : m3)->param(name, lex.int_type());
            exprs.push_back(p);
         }
         for (int k = 0; k < nv; ++k)
            exprs.push_back(lex.make_literal(lex.int_type(), vh::u8(std::to_string(k))));
         // every second parameter has a default argument (one of the values): a substitution never consults it
         for (int k = 1; k < np; k += 2)
            const_cast<impl::Parameter*>(dynamic_cast<const impl::Parameter*>(exprs.at(k + 1)))->init
               = nv > 0 ? exprs.at(np + 1 + k % nv) : lex.make_literal(lex.int_type(), u8"dflt");
      }
      int id_of(const ipr::Expr& e) const
      {
         for (std::size_t k = 1; k < exprs.size(); ++k)
            if (exprs[k] == &e) return static_cast<int>(k);
         return -1;    // an expression that is none of the operands
      }
      const ipr::Parameter& param(int p) const { return *dynamic_cast<const ipr::Parameter*>(exprs.at(p)); }

      Value exec(const std::string& op, int s, int p, int v)
      {
         auto ev = Value::object();
         int r = 0;
         if (op == "make_elementary") {
            substs.push_back(lex.make_elementary_substitution(param(p), *exprs.at(v)));
            general.push_back(nullptr);
            r = s = static_cast<int>(substs.size()) - 1;
         }
         else if (op == "make_general") {
            auto g = lex.make_general_substitution();
            substs.push_back(g);
            general.push_back(g);
            r = s = static_cast<int>(substs.size()) - 1;
         }
         else if (op == "bind") {
            // (auto&&: whatever subst hands back is compared with the substitution it was called on)
            auto&& back = general.at(s)->subst(param(p), *exprs.at(v));
            r = static_cast<const void*>(&back) == static_cast<const void*>(general.at(s)) ? s : -1;
         }
         else if (op == "apply")
            r = id_of((*substs.at(s))[param(p)]);
         else
            throw vh::HarnessError("unknown op " + op);
         ev.set("op", op).set("s", s).set("p", p).set("v", v).set("r", r);
         return ev;
      }
   };

   std::string tlc_unescape(const std::string& line)
   {
      auto b = line.find("\", \"");
      auto e = line.rfind("\">>");
      if (b == std::string::npos or e == std::string::npos) return { };
      std::string out;
      for (std::size_t k = b + 4; k < e; ++k) {
         if (line[k] == '\\' and k + 1 < e) { out += line[k + 1]; ++k; }
         else out += line[k];
      }
      return out;
   }

   struct LastBeh {
      FILE* f = nullptr;
      LastBeh() { if (auto p = std::getenv("VERIF_LASTBEH")) f = std::fopen(p, "w"); }
      void note(const std::string& text)
      {
         if (f == nullptr) return;
         std::rewind(f);
         std::fwrite(text.data(), 1, text.size(), f);
         std::fputc('\n', f);
         std::fflush(f);
         if (ftruncate(fileno(f), static_cast<off_t>(text.size() + 1)) != 0) { }
      }
   };

   int do_replay(int np, int nv)
   {
      std::ios::sync_with_stdio(false);
      std::string line;
      LastBeh lastbeh;
      long behaviours = 0, steps = 0, failed = 0, printed = 0;
      std::set<std::string> classes;
      std::map<std::string, long> fail_keys;
      std::string sample;
      while (std::getline(std::cin, line)) {
         std::string text = line.rfind("<<\"BEH\"", 0) == 0 ? tlc_unescape(line) : line;
         if (text.empty() or text[0] != '[') continue;
         Value beh = vj::parse(text);
         lastbeh.note(text);
         ++behaviours;
         if (sample.empty()) sample = text;
         Machine m { np, nv };
         std::size_t k = 0;
         std::vector<std::set<int>> dom(1);
         for (auto& h : *beh.a) {
            ++k; ++steps;
            auto op = h.at("op").as_str();
            int s = static_cast<int>(h.at("s").as_int()), p = static_cast<int>(h.at("p").as_int()),
                v = static_cast<int>(h.at("v").as_int());
            auto got = m.exec(op, s, p, v);
            // class: operation x (elementary/general) x (parameter in / out of the domain) x rebinding
            std::string cls = op;
            if (op == "make_elementary") { dom.push_back({p}); cls += p == v ? ":self" : ""; }
            else if (op == "make_general") dom.push_back({});
            else if (op == "bind") { cls += dom.at(s).count(p) ? ":rebind" : ":new"; dom.at(s).insert(p); }
            else cls += std::string(m.general.at(s) ? ":general" : ":elementary") + (dom.at(s).count(p) ? ":in" : ":out");
            classes.insert(cls);
            if (got.at("r").as_int() != h.at("r").as_int()) {
               ++failed;
               ++fail_keys[cls];
               if (printed++ < 20) {
                  auto f = Value::object();
                  auto pre = Value::array();
                  for (std::size_t j = 0; j < k; ++j) pre.push((*beh.a)[j]);
                  f.set("key", cls).set("step", static_cast<long>(k)).set("expected", h).set("got", got).set("beh", pre);
                  std::cout << "FAIL " << vj::dump(f) << "\n";
               }
               break;
            }
         }
      }
      auto s = Value::object();
      auto fk = Value::object();
      for (auto& kv : fail_keys) fk.set(kv.first, kv.second);
      s.set("behaviours", behaviours).set("steps", steps).set("failed", failed).set("fail_keys", fk)
         .set("classes", static_cast<long>(classes.size())).set("sample", sample);
      std::cout << "SUMMARY " << vj::dump(s) << "\n";
      return 0;
   }

   int do_record(int argc, char** argv)
   {
      unsigned long seed = 1;
      int runs = 5, len = 200, np = 6, nv = 4, maxsubst = 0;
      for (int k = 2; k + 1 < argc; k += 2) {
         std::string f = argv[k], v = argv[k + 1];
         if (f == "--seed") seed = std::stoul(v);
         else if (f == "--runs") runs = std::stoi(v);
         else if (f == "--len") len = std::stoi(v);
         else if (f == "--params") np = std::stoi(v);
         else if (f == "--values") nv = std::stoi(v);
         else if (f == "--maxsubst") maxsubst = std::stoi(v);        // few substitutions, so that each gets many bindings and rebindings
      }
      std::mt19937_64 g { seed };
      auto below = [&](int n) { return static_cast<int>(g() % static_cast<unsigned long>(n)); };
      for (int run = 0; run < runs; ++run) {
         std::cout << "{\"op\":\"reset\",\"s\":0,\"p\":0,\"v\":0,\"r\":0}\n";
         Machine m { np, nv };
         for (int k = 0; k < len; ++k) {
            int ns = static_cast<int>(m.substs.size()) - 1;
            int what = below(100);
            Value ev;
            if (maxsubst > 0) {
               if (ns == 0) what = 0;                                  // one elementary substitution first
               else if (ns < maxsubst) what = 10;                      // then general ones
               else if (what < 14) what = 14 + below(31);              // then only bindings and applications
            }
            if (ns == 0 or what < 8) ev = m.exec("make_elementary", 0, 1 + below(np), 1 + below(np + nv));
            else if (what < 14) ev = m.exec("make_general", 0, 0, 0);
            else if (what < 45) {
               std::vector<int> gs;
               for (int s = 1; s <= ns; ++s) if (m.general[s]) gs.push_back(s);
               if (gs.empty()) { ev = m.exec("make_general", 0, 0, 0); }
               else ev = m.exec("bind", gs[below(static_cast<int>(gs.size()))], 1 + below(np), 1 + below(np + nv));
            }
            else ev = m.exec("apply", 1 + below(ns), 1 + below(np), 0);
            std::cout << vj::dump(ev) << "\n";
         }
      }
      return 0;
   }
}

int main(int argc, char** argv)
{
   std::string mode = argc > 1 ? argv[1] : "";
   try {
      if (mode == "replay") return do_replay(argc > 2 ? std::atoi(argv[2]) : 3, argc > 3 ? std::atoi(argv[3]) : 2);
      if (mode == "record") return do_record(argc, argv);
   }
   catch (const std::logic_error& e) {
      // the library throws logic errors, the harness run-time errors: one that arrives here escaped from a call of the library
      // where the harness expected none -- recorded like a crash (a terminal event), not as a failure of the harness
      std::cout.flush();
      std::cerr << "exception of the library escaped: " << e.what() << "\n";
      std::abort();
   }
   catch (const std::exception& e) {
      std::cout << "HARNESS-ERROR " << e.what() << "\n";
      return 2;
   }
   return 2;
}
