// The harness' view of one Lexicon: entity registry (address -> small integer id in order of first sight),
// the process-wide constants in a fixed order, and the observation projection of unified nodes.
#ifndef VERIF_WORLD_HPP
#define VERIF_WORLD_HPP
#include <algorithm>
#include <cstring>
#include <map>
#include <string>
#include <typeinfo>
#include <vector>
#include <ipr/impl>
#include "json.hpp"

namespace vh {
   inline const char* const category_names[] = {
#include "categories.inc"
   };
   inline const char* cat_name(ipr::Category_code c)
   {
      auto k = static_cast<std::size_t>(c);
      return k < sizeof category_names / sizeof category_names[0] ? category_names[k] : "?";
   }

   struct HarnessError : std::runtime_error { using std::runtime_error::runtime_error; };

   inline std::string word(ipr::util::word_view w) { return std::string(reinterpret_cast<const char*>(w.data()), w.size()); }
   inline std::u8string u8(const std::string& s) { return std::u8string(reinterpret_cast<const char8_t*>(s.data()), s.size()); }
   // ---- the edge of a string storage block -----------------------------------------------------------------
   // Words are kept in storage blocks that a Lexicon obtains one after the other.  Histories that start right before the end
   // of a block put their own words on both sides of the change of block.  Nothing is assumed about block sizes: a fresh
   // Lexicon is fed 1000-byte words until the address of a word stops following its predecessor's (measured once per process);
   // `to_edge` then feeds a Lexicon one word less than that, and `slack` eight-byte words, which leaves less than a thousand
   // bytes of the block.  If no change of block is seen within 20000 words, `to_edge` does nothing.
   inline std::u8string filler_word(int k, std::size_t n)
   {
      std::string w = "~fill" + std::to_string(k) + "~";
      while (w.size() < n) w += static_cast<char>('a' + (w.size() * 7 + static_cast<std::size_t>(k)) % 26);
      w.resize(std::max(n, w.find('~', 1) + 1));
      return u8(w);
   }
   inline int words_per_block()
   {
      static const int k = [] {
         ipr::impl::Lexicon lx;
         const char8_t* prev = nullptr;
         for (int i = 0; i < 20000; ++i) {
            auto p = lx.get_string(filler_word(i, 1000)).characters().data();
            if (prev != nullptr and (p < prev or p - prev > 4000)) return i;
            prev = p;
         }
         return 0;
      }();
      return k;
   }
   inline bool to_edge(ipr::impl::Lexicon& lx, int slack)
   {
      int k = words_per_block();
      if (k <= 1) return false;
      for (int i = 0; i < k; ++i) lx.get_string(filler_word(i, 1000));
      for (int j = 0; j < slack; ++j) lx.get_string(u8("~t" + std::to_string(j)));
      return true;
   }

   inline std::string hex(std::string_view s)
   {
      static const char d[] = "0123456789abcdef";
      std::string out;
      for (unsigned char c : s) { out += d[c >> 4]; out += d[c & 15]; }
      return out;
   }
   inline std::string unhex(std::string_view h)
   {
      auto v = [](char c) { return c <= '9' ? c - '0' : (c | 32) - 'a' + 10; };
      std::string out;
      for (std::size_t i = 0; i + 1 < h.size(); i += 2) out += static_cast<char>(v(h[i]) * 16 + v(h[i + 1]));
      return out;
   }

   // Kinds of entities.  Nodes are keyed by the address of their ipr::Node subobject; the other interface
   // objects by their own address and kind.
   enum Kind { K_node = 0, K_transfer, K_linkage, K_callconv, K_logogram, K_subst, K_other };

   struct Ent {
      Kind kind = K_node;
      const void* raw = nullptr;
      const ipr::Node* node = nullptr;
   };

   // Order of the Lexicon constants in every trace and every TLC-generated behaviour.
   inline const char* const builtin_accessors[26] = {
      "void", "bool", "char", "signed char", "unsigned char", "wchar_t", "char8_t", "char16_t", "char32_t",
      "short", "unsigned short", "int", "unsigned int", "long", "unsigned long", "long long", "unsigned long long",
      "float", "double", "long double", "...", "typename", "class", "union", "enum", "namespace" };

   struct World {
      ipr::impl::Lexicon lex;
      ipr::impl::Translation_unit unit { lex };              // gives the harness a global region to build in
      std::vector<Ent> ents { Ent{} };                       // 1-based
      std::map<std::pair<const void*, int>, int> ids;

      int lookup(const void* p, Kind k) const
      {
         auto it = ids.find({p, k});
         return it == ids.end() ? 0 : it->second;
      }
      int lookup(const ipr::Node& n) const { return lookup(&n, K_node); }
      int reg(const ipr::Node& n)
      {
         if (int id = lookup(&n, K_node)) return id;
         ents.push_back(Ent{K_node, &n, &n});
         return ids[{&n, K_node}] = static_cast<int>(ents.size()) - 1;
      }
      int reg_raw(const void* p, Kind k)
      {
         if (int id = lookup(p, k)) return id;
         ents.push_back(Ent{k, p, nullptr});
         return ids[{p, k}] = static_cast<int>(ents.size()) - 1;
      }
      int reg(const ipr::Transfer& x) { return reg_raw(&x, K_transfer); }
      int reg(const ipr::Linkage& x) { return reg_raw(&x, K_linkage); }
      int reg(const ipr::Calling_convention& x) { return reg_raw(&x, K_callconv); }
      int reg_logo(const ipr::Logogram& x) { return reg_raw(&x, K_logogram); }
      int next_id() const { return static_cast<int>(ents.size()); }

      const Ent& ent(int id) const
      {
         if (id <= 0 or id >= static_cast<int>(ents.size())) throw HarnessError("bad entity id " + std::to_string(id));
         return ents[id];
      }
      template<class T> const T& as(int id) const
      {
         auto& e = ent(id);
         if (e.kind != K_node) throw HarnessError("entity " + std::to_string(id) + " is not a node");
         if (auto p = dynamic_cast<const T*>(e.node)) return *p;
         throw HarnessError("entity " + std::to_string(id) + " is not a " + typeid(T).name());
      }
      const ipr::Transfer& xfer(int id) const
      {
         auto& e = ent(id);
         if (e.kind != K_transfer) throw HarnessError("not a transfer");
         return *static_cast<const ipr::Transfer*>(e.raw);
      }
      const ipr::Linkage& linkage(int id) const
      {
         auto& e = ent(id);
         if (e.kind != K_linkage) throw HarnessError("not a linkage");
         return *static_cast<const ipr::Linkage*>(e.raw);
      }
      const ipr::Calling_convention& callconv(int id) const
      {
         auto& e = ent(id);
         if (e.kind != K_callconv) throw HarnessError("not a calling convention");
         return *static_cast<const ipr::Calling_convention*>(e.raw);
      }
      const ipr::Logogram& logogram(int id) const
      {
         auto& e = ent(id);
         if (e.kind != K_logogram) throw HarnessError("not a logogram");
         return *static_cast<const ipr::Logogram*>(e.raw);
      }

      const ipr::Type& builtin(int k) const
      {
         const ipr::Lexicon& l = lex;
         switch (k) {
         case 0: return l.void_type(); case 1: return l.bool_type(); case 2: return l.char_type();
         case 3: return l.schar_type(); case 4: return l.uchar_type(); case 5: return l.wchar_t_type();
         case 6: return l.char8_t_type(); case 7: return l.char16_t_type(); case 8: return l.char32_t_type();
         case 9: return l.short_type(); case 10: return l.ushort_type(); case 11: return l.int_type();
         case 12: return l.uint_type(); case 13: return l.long_type(); case 14: return l.ulong_type();
         case 15: return l.long_long_type(); case 16: return l.ulong_long_type(); case 17: return l.float_type();
         case 18: return l.double_type(); case 19: return l.long_double_type(); case 20: return l.ellipsis_type();
         case 21: return l.typename_type(); case 22: return l.class_type(); case 23: return l.union_type();
         case 24: return l.enum_type(); default: return l.namespace_type();
         }
      }
      const ipr::Symbol& symconst(int k) const
      {
         const ipr::Lexicon& l = lex;
         switch (k) {
         case 0: return l.false_value(); case 1: return l.true_value(); case 2: return l.nullptr_value();
         case 3: return l.default_value(); default: return l.delete_value();
         }
      }

      static constexpr int NConst = 71;
      // Register the constants; returns the ids assigned, in the canonical order (they are 1..71 exactly
      // when all constants are pairwise distinct entities).
      std::vector<int> consts;
      void init_consts()
      {
         const ipr::Lexicon& l = lex;
         for (int k = 0; k < 26; ++k) consts.push_back(reg(builtin(k)));                 //  1..26
         for (int k = 0; k < 5; ++k) consts.push_back(reg(symconst(k)));                 // 27..31
         consts.push_back(reg(l.nullptr_value().type()));                                // 32
         // (`auto` has no accessor of its own: it is the type its spelling denotes, and the type `default` must have)
         consts.push_back(reg(lex.get_as_type(lex.get_identifier(u8"auto"))));           // 33
         consts.push_back(reg(l.cxx_linkage()));                                         // 34
         consts.push_back(reg(l.c_linkage()));                                           // 35
         consts.push_back(reg(l.int_type().transfer()));                                 // 36 natural transfer
         consts.push_back(reg(l.int_type().transfer().convention()));                    // 37 natural convention
         for (int k = 0; k < 26; ++k) consts.push_back(reg(builtin(k).name()));          // 38..63
         for (int k = 0; k < 5; ++k) consts.push_back(reg(symconst(k).name()));          // 64..68
         consts.push_back(reg(lex.get_as_type(lex.get_identifier(u8"auto")).name()));    // 69 "auto"
         consts.push_back(reg(lex.get_identifier(u8"this")));                            // 70
         consts.push_back(reg(unit.global_namespace().name()));                          // 71 ""
      }
      bool consts_canonical() const
      {
         for (std::size_t k = 0; k < consts.size(); ++k)
            if (consts[k] != static_cast<int>(k) + 1) return false;
         return consts.size() == NConst;
      }

      // -- observation --------------------------------------------------------------------------------
      // id of a node read back through an accessor: registers it if it was never seen (which the
      // specification will then refuse unless it expected a fresh entity there).
      int rd(const ipr::Node& n) { return reg(n); }

      static int qbits(const ipr::Lexicon& l, ipr::Qualifiers q)
      {
         int r = 0;
         if ((q & l.const_qualifier()) != ipr::Qualifiers{}) r |= 1;
         if ((q & l.volatile_qualifier()) != ipr::Qualifiers{}) r |= 2;
         if ((q & l.restrict_qualifier()) != ipr::Qualifiers{}) r |= 4;
         // two extended qualifiers (the representation is as wide as a pointer; the basis uses its low bits)
         if ((q & ext_qual(0)) != ipr::Qualifiers{}) r |= 8;
         if ((q & ext_qual(1)) != ipr::Qualifiers{}) r |= 16;
         auto known = l.const_qualifier() | l.volatile_qualifier() | l.restrict_qualifier() | ext_qual(0) | ext_qual(1);
         if ((q & known) != q) r |= 32;    // a bit that nobody asked for
         return r;
      }
      static ipr::Qualifiers ext_qual(int k) { return ipr::Qualifiers{std::uintptr_t{1} << (k == 0 ? 40 : 63)}; }
      ipr::Qualifiers quals(int bits) const
      {
         const ipr::Lexicon& l = lex;
         ipr::Qualifiers q { };
         if (bits & 1) q |= l.const_qualifier();
         if (bits & 2) q |= l.volatile_qualifier();
         if (bits & 4) q |= l.restrict_qualifier();
         if (bits & 8) q |= ext_qual(0);
         if (bits & 16) q |= ext_qual(1);
         return q;
      }

      vj::Value obs(int id);
   };

   // Observation record of an entity, in the vocabulary of spec/IprUnify.tla:
   //   [c, ops, q, w, w2, ty, bad]
   struct ObsVisitor : ipr::Visitor {
      World& w;
      std::string c;
      std::vector<int> ops;
      int q = 0;
      std::string wd, wd2;
      int ty = 0;
      std::string bad;
      explicit ObsVisitor(World& x) : w{x} { }

      void flaw(const char* s) { if (not bad.empty()) bad += ','; bad += s; }
      void typed(const ipr::Expr& e)
      {
         try { ty = w.rd(e.type()); }
         catch (const std::logic_error&) { ty = 0; flaw("type-refused"); }
      }
      void type_common(const ipr::Type& t, bool composite)
      {
         typed(t);
         auto& x = t.transfer();
         wd = word(x.linkage().language().what().characters());
         wd2 = word(x.convention().name().what().characters());
         if (composite) {
            // The name of a compound type is the type-id whose type-expression is the type itself.
            auto tid = dynamic_cast<const ipr::Type_id*>(&t.name());
            if (tid == nullptr or &tid->type_expr() != &t) flaw("name-not-own-type-id");
            else if (tid->category != ipr::Category_code::Type_id) flaw("type-id-category");
         }
         if (&t.linkage() != &x.linkage()) flaw("linkage-not-transfer-linkage");
      }

      void visit(const ipr::Node& n) override { c = cat_name(n.category); }
      void visit(const ipr::Expr& n) override { c = cat_name(n.category); typed(n); }
      void visit(const ipr::Name& n) override { c = cat_name(n.category); }
      void visit(const ipr::Type& n) override { c = cat_name(n.category); type_common(n, false); }
      void visit(const ipr::Directive& n) override { c = cat_name(as_expr(n).category); }
      void visit(const ipr::Stmt& n) override { c = cat_name(as_expr(n).category); }
      void visit(const ipr::Decl& n) override { c = cat_name(as_expr(n).category); }
      template<class T> static const ipr::Expr& as_expr(const T& t) { return t; }

      void visit(const ipr::String& n) override { c = "String"; wd = word(n.characters()); }
      void visit(const ipr::Identifier& n) override { c = "Identifier"; wd = word(n.string().characters()); }
      void visit(const ipr::Operator& n) override { c = "Operator"; wd = word(n.opname().characters()); }
      void visit(const ipr::Suffix& n) override { c = "Suffix"; ops = { w.rd(n.name()) }; }
      void visit(const ipr::Conversion& n) override { c = "Conversion"; ops = { w.rd(n.target()) }; }
      void visit(const ipr::Ctor_name& n) override { c = "Ctor_name"; ops = { w.rd(n.object_type()) }; }
      void visit(const ipr::Dtor_name& n) override { c = "Dtor_name"; ops = { w.rd(n.object_type()) }; }
      void visit(const ipr::Guide_name& n) override { c = "Guide_name"; ops = { w.rd(n.mapping_decl()) }; }
      void visit(const ipr::Type_id& n) override { c = "Type_id"; ops = { w.rd(n.type_expr()) }; }
      void visit(const ipr::Template_id& n) override
      {
         c = "Template_id";
         ops = { w.rd(n.template_name()), w.rd(n.args()) };
      }

      void visit(const ipr::Pointer& n) override { c = "Pointer"; ops = { w.rd(n.points_to()) }; type_common(n, true); }
      void visit(const ipr::Reference& n) override { c = "Reference"; ops = { w.rd(n.refers_to()) }; type_common(n, true); }
      void visit(const ipr::Rvalue_reference& n) override
      { c = "Rvalue_reference"; ops = { w.rd(n.refers_to()) }; type_common(n, true); }
      void visit(const ipr::Array& n) override
      { c = "Array"; ops = { w.rd(n.element_type()), w.rd(n.bound()) }; type_common(n, true); }
      void visit(const ipr::Qualified& n) override
      {
         c = "Qualified";
         ops = { w.rd(n.main_variant()) };
         q = World::qbits(w.lex, n.qualifiers());
         type_common(n, true);
      }
      void visit(const ipr::Function& n) override
      { c = "Function"; ops = { w.rd(n.source()), w.rd(n.target()), w.rd(n.throws()) }; type_common(n, true); }
      void visit(const ipr::Forall& n) override
      { c = "Forall"; ops = { w.rd(n.source()), w.rd(n.target()) }; type_common(n, true); }
      void visit(const ipr::Ptr_to_member& n) override
      { c = "Ptr_to_member"; ops = { w.rd(n.containing_type()), w.rd(n.member_type()) }; type_common(n, true); }
      void visit(const ipr::Tor& n) override
      { c = "Tor"; ops = { w.rd(n.source()), w.rd(n.throws()) }; type_common(n, true); }
      void seq(const ipr::Sequence<ipr::Type>& s)
      {
         auto n = s.size();
         std::size_t k = 0;
         for (auto& t : s) { ops.push_back(w.rd(t)); ++k; }
         if (k != n) flaw("iteration-disagrees-with-size");
      }
      void visit(const ipr::Product& n) override { c = "Product"; seq(n.elements()); type_common(n, true); }
      void visit(const ipr::Sum& n) override { c = "Sum"; seq(n.elements()); type_common(n, true); }
      void visit(const ipr::Decltype& n) override { c = "Decltype"; ops = { w.rd(n.expr()) }; type_common(n, true); }
      void visit(const ipr::Auto& n) override { c = "Auto"; type_common(n, true); }
      void visit(const ipr::As_type& n) override
      {
         if (&n.expr() == &static_cast<const ipr::Expr&>(n)) {
            // A type that is its own expression: named by an identifier (built-in or extended).
            c = "As_type_id";
            ops = { w.rd(n.name()) };
            type_common(n, false);
         }
         else {
            c = "As_type";
            ops = { w.rd(n.expr()) };
            type_common(n, true);
         }
      }
      void visit(const ipr::Symbol& n) override { c = "Symbol"; typed(n); ops = { w.rd(n.name()), ty }; }
      void visit(const ipr::Literal& n) override
      {
         c = "Literal";
         typed(n);
         ops = { w.rd(n.type()) };
         wd = word(n.string().characters());
         if (&n.first() != &n.type()) flaw("first-not-type");
      }
   };

   inline vj::Value World::obs(int id)
   {
      auto& e = ent(id);
      ObsVisitor v { *this };
      switch (e.kind) {
      case K_node: e.node->accept(v); break;
      case K_transfer: {
         auto& x = *static_cast<const ipr::Transfer*>(e.raw);
         v.c = "Transfer";
         v.wd = word(x.linkage().language().what().characters());
         v.wd2 = word(x.convention().name().what().characters());
         if (&x.first() != &x.linkage() or &x.second() != &x.convention()) v.flaw("alias");
         break;
      }
      case K_linkage:
         v.c = "Linkage";
         v.wd = word(static_cast<const ipr::Linkage*>(e.raw)->language().what().characters());
         break;
      case K_callconv:
         v.c = "CallConv";
         v.wd = word(static_cast<const ipr::Calling_convention*>(e.raw)->name().what().characters());
         break;
      case K_logogram:
         v.c = "Logogram";
         v.wd = word(static_cast<const ipr::Logogram*>(e.raw)->what().characters());
         break;
      default: v.c = "Other";
      }
      auto o = vj::Value::object();
      o.set("c", v.c);
      auto a = vj::Value::array();
      for (int x : v.ops) a.push(x);
      o.set("ops", a);
      o.set("q", v.q);
      o.set("w", v.wd);
      o.set("w2", v.wd2);
      o.set("ty", v.ty);
      o.set("bad", v.bad);
      return o;
   }
}
#endif
