// Harness for spec/IprSpecifiers*.tla (property C10).
//   specs replay            stdin: one line per subset with the answers the specification demands (binding A)
//   specs record --seed S --len N   stdout: ndjson trace of register operations (binding B)
#include <algorithm>
#include <cstdio>
#include <cstdlib>
#include <iostream>
#include <random>
#include <set>
#include <unistd.h>
#include "world.hpp"

using vj::Value;

namespace {
   const std::vector<std::string> spec_basis { "=0", "export", "public", "protected", "private", "consteval",
      "constexpr", "constinit", "explicit", "extern", "friend", "inline", "mutable", "register", "static",
      "thread_local", "typedef", "virtual" };
   const std::vector<std::string> qual_basis { "const", "volatile", "restrict" };

   struct Refused { };

   struct Algebra {
      ipr::impl::Lexicon lex;
      const ipr::Lexicon& ilex() const { return lex; }
      const ipr::Logogram& logo(const std::string& n) { return lex.get_logogram(lex.get_string(vh::u8(n))); }

      ipr::Specifiers scoord(const std::string& n)
      {
         try { return ilex().specifiers(ipr::Basic_specifier{logo(n)}); }
         catch (...) { throw Refused{}; }
      }
      ipr::Qualifiers qcoord(const std::string& n)
      {
         try { return ilex().qualifiers(ipr::Basic_qualifier{logo(n)}); }
         catch (...) { throw Refused{}; }
      }
      Value sdec(ipr::Specifiers s)
      {
         auto a = Value::array();
         for (auto& b : ilex().decompose(s)) a.push(vh::word(b.logogram().what().characters()));
         return a;
      }
      Value qdec(ipr::Qualifiers s)
      {
         auto a = Value::array();
         for (auto& b : ilex().decompose(s)) a.push(vh::word(b.logogram().what().characters()));
         return a;
      }
   };

   std::string tlc_unescape(const std::string& line)
   {
      auto b = line.find("\", \"");
      auto e = line.rfind("\">>");
      if (b == std::string::npos or e == std::string::npos) return { };
      std::string out;
      for (std::size_t k = b + 4; k < e; ++k) {
         if (line[k] == '\\' and k + 1 < e) { out += line[k + 1]; ++k; }
         else out += line[k];
      }
      return out;
   }

   std::multiset<std::string> names(const Value& a)
   {
      std::multiset<std::string> s;
      for (auto& x : *a.a) s.insert(x.as_str());
      return s;
   }

   template<class T, class Coord, class Dec>
   std::string check_subset(const Value& rec, Coord coord, Dec dec)
   {
      auto build = [&](const Value& list) {
         T v { };
         for (auto& n : *list.a) v |= coord(n.as_str());
         return v;
      };
      T x = build(rec.at("x"));
      if (names(dec(x)) != names(rec.at("x"))) return "decompose";
      for (auto& kv : *rec.at("probes").o) {
         const Value& p = kv.second;
         T y = build(p.at("y"));
         if (names(dec(x | y)) != names(p.at("or"))) return "or";
         if (names(dec(x & y)) != names(p.at("and"))) return "and";
         if (names(dec(x ^ y)) != names(p.at("xor"))) return "xor";
         if (ipr::implies(x, y) != p.at("imp").b) return "implies";
         if (ipr::implies(y, x) != p.at("pmi").b) return "implies-converse";
         T z = x; z |= y; if (z != (x | y)) return "or-assign";
         z = x; z &= y; if (z != (x & y)) return "and-assign";
         z = x; z ^= y; if (z != (x ^ y)) return "xor-assign";
      }
      return { };
   }

   int do_replay()
   {
      std::ios::sync_with_stdio(false);
      Algebra al;
      std::string line;
      long n = 0, failed = 0, printed = 0, evals = 0;
      std::set<std::string> classes;
      std::map<std::string, long> fail_keys;
      std::string sample;
      while (std::getline(std::cin, line)) {
         std::string text = line.rfind("<<\"BEH\"", 0) == 0 ? tlc_unescape(line) : line;
         if (text.empty() or text[0] != '{') continue;
         Value rec = vj::parse(text);
         ++n;
         if (sample.empty()) sample = text;
         std::string why;
         try {
            if (rec.at("family").as_str() == "spec")
               why = check_subset<ipr::Specifiers>(rec, [&](const std::string& s) { return al.scoord(s); },
                                                   [&](ipr::Specifiers s) { return al.sdec(s); });
            else
               why = check_subset<ipr::Qualifiers>(rec, [&](const std::string& s) { return al.qcoord(s); },
                                                   [&](ipr::Qualifiers s) { return al.qdec(s); });
         }
         catch (const Refused&) { why = "basic-name-refused"; }
         evals += 1 + 5 * static_cast<long>(rec.at("probes").size());
         classes.insert(vj::dump(rec.at("x")));
         if (not why.empty()) {
            ++failed;
            ++fail_keys[why];
            if (printed++ < 20) {
               auto f = Value::object();
               f.set("key", why).set("family", rec.at("family")).set("x", rec.at("x"));
               std::cout << "FAIL " << vj::dump(f) << "\n";
            }
         }
      }
      auto s = Value::object();
      auto fk = Value::object();
      for (auto& kv : fail_keys) fk.set(kv.first, kv.second);
      s.set("behaviours", n).set("steps", evals).set("failed", failed).set("fail_keys", fk)
         .set("classes", static_cast<long>(classes.size())).set("sample", sample);
      std::cout << "SUMMARY " << vj::dump(s) << "\n";
      return 0;
   }

   int do_record(int argc, char** argv)
   {
      unsigned long seed = 1;
      int len = 300, runs = 3;
      for (int k = 2; k + 1 < argc; k += 2) {
         std::string f = argv[k], v = argv[k + 1];
         if (f == "--seed") seed = std::stoul(v);
         else if (f == "--len") len = std::stoi(v);
         else if (f == "--runs") runs = std::stoi(v);
      }
      std::mt19937_64 g { seed };
      auto below = [&](int n) { return static_cast<int>(g() % static_cast<unsigned long>(n)); };
      // names offered to `coord`: the bases, the other reserved words, the empty and a dynamic logogram
      std::vector<std::string> offered = spec_basis;
      offered.insert(offered.end(), qual_basis.begin(), qual_basis.end());
      for (auto w : { "", "foo", "int", "C", "C++", "auto", "class", "default", "delete", "this", "typename", "Static",
                      "static ", "virtual2", "mutabl", "=", "0", "long long" })
         offered.push_back(w);
      for (int run = 0; run < runs; ++run) {
         Algebra al;
         ipr::Specifiers sreg[4] { };
         ipr::Qualifiers qreg[4] { };
         std::cout << "{\"e\":\"reset\"}\n";
         // the named accessors
         const ipr::Lexicon& L = al.lex;
         struct Acc { const char* name; const char* word; bool spec; ipr::Specifiers s; ipr::Qualifiers q; };
         std::vector<Acc> accs {
            {"export_specifier", "export", true, L.export_specifier(), {}}, {"static_specifier", "static", true, L.static_specifier(), {}},
            {"extern_specifier", "extern", true, L.extern_specifier(), {}}, {"mutable_specifier", "mutable", true, L.mutable_specifier(), {}},
            {"thread_local_specifier", "thread_local", true, L.thread_local_specifier(), {}},
            {"register_specifier", "register", true, L.register_specifier(), {}}, {"inline_specifier", "inline", true, L.inline_specifier(), {}},
            {"constexpr_specifier", "constexpr", true, L.constexpr_specifier(), {}}, {"consteval_specifier", "consteval", true, L.consteval_specifier(), {}},
            {"virtual_specifier", "virtual", true, L.virtual_specifier(), {}}, {"abstract_specifier", "=0", true, L.abstract_specifier(), {}},
            {"explicit_specifier", "explicit", true, L.explicit_specifier(), {}}, {"friend_specifier", "friend", true, L.friend_specifier(), {}},
            {"typedef_specifier", "typedef", true, L.typedef_specifier(), {}}, {"public_specifier", "public", true, L.public_specifier(), {}},
            {"protected_specifier", "protected", true, L.protected_specifier(), {}}, {"private_specifier", "private", true, L.private_specifier(), {}},
            {"const_qualifier", "const", false, {}, L.const_qualifier()}, {"volatile_qualifier", "volatile", false, {}, L.volatile_qualifier()},
            {"restrict_qualifier", "restrict", false, {}, L.restrict_qualifier()} };
         for (auto& a : accs) {
            auto ev = Value::object();
            bool eq = false;
            try { eq = a.spec ? a.s == al.scoord(a.word) : a.q == al.qcoord(a.word); } catch (const Refused&) { }
            ev.set("e", "accessor").set("name", a.name).set("fam", a.spec ? "spec" : "qual")
               .set("dec", a.spec ? al.sdec(a.s) : al.qdec(a.q)).set("eqcoord", eq);
            std::cout << vj::dump(ev) << "\n";
         }
         // every offered name asked in one family right after the other family (and with a refused request in between): a
         // name of one basis must be refused by the other whatever was asked before
         {
            auto ask = [&](bool spec, const std::string& n) {
               auto ev = Value::object();
               ev.set("e", "coord").set("fam", spec ? "spec" : "qual").set("dst", 1).set("n", n);
               try {
                  if (spec) sreg[1] = al.scoord(n); else qreg[1] = al.qcoord(n);
                  ev.set("out", "ok").set("dec", spec ? al.sdec(sreg[1]) : al.qdec(qreg[1]));
               }
               catch (const Refused&) { ev.set("out", "refused").set("dec", Value::array()); }
               std::cout << vj::dump(ev) << "\n";
            };
            for (auto& w : offered)
               for (bool first : { true, false }) {
                  ask(first, w); ask(not first, w);
                  ask(first, w); ask(first, "no such name"); ask(not first, w); ask(not first, w); ask(first, w);
               }
         }
         for (int k = 0; k < len; ++k) {
            bool spec = below(100) < 70;
            const char* fam = spec ? "spec" : "qual";
            int dst = 1 + below(3), a = 1 + below(3), b = 1 + below(3);
            int what = below(100);
            auto ev = Value::object();
            auto dec = [&]() { return spec ? al.sdec(sreg[dst]) : al.qdec(qreg[dst]); };
            if (what < 40) {
               std::string n = below(100) < 75 ? (spec ? spec_basis[below(18)] : qual_basis[below(3)])
                                               : offered[below(static_cast<int>(offered.size()))];
               ev.set("e", "coord").set("fam", fam).set("dst", dst).set("n", n);
               try {
                  if (spec) sreg[dst] = al.scoord(n); else qreg[dst] = al.qcoord(n);
                  ev.set("out", "ok").set("dec", dec());
               }
               catch (const Refused&) { ev.set("out", "refused").set("dec", Value::array()); }
            }
            else if (what < 85) {
               int f = below(3);
               ev.set("e", f == 0 ? "or" : f == 1 ? "and" : "xor").set("fam", fam).set("dst", dst).set("a", a).set("b", b);
               if (spec) sreg[dst] = f == 0 ? sreg[a] | sreg[b] : f == 1 ? sreg[a] & sreg[b] : sreg[a] ^ sreg[b];
               else qreg[dst] = f == 0 ? qreg[a] | qreg[b] : f == 1 ? qreg[a] & qreg[b] : qreg[a] ^ qreg[b];
               ev.set("dec", dec());
            }
            else if (what < 95) {
               ev.set("e", "implies").set("fam", fam).set("a", a).set("b", b)
                  .set("r", spec ? ipr::implies(sreg[a], sreg[b]) : ipr::implies(qreg[a], qreg[b]));
            }
            else {
               ev.set("e", "clear").set("fam", fam).set("dst", dst);
               if (spec) sreg[dst] = { }; else qreg[dst] = { };
               ev.set("dec", dec());
            }
            std::cout << vj::dump(ev) << "\n";
         }
      }
      return 0;
   }
}

int main(int argc, char** argv)
{
   std::string mode = argc > 1 ? argv[1] : "";
   try {
      if (mode == "replay") return do_replay();
      if (mode == "record") return do_record(argc, argv);
   }
   catch (const std::logic_error& e) {
      // the library throws logic errors, the harness run-time errors: one that arrives here escaped from a call of the library
      // where the harness expected none -- recorded like a crash (a terminal event), not as a failure of the harness
      std::cout.flush();
      std::cerr << "exception of the library escaped: " << e.what() << "\n";
      std::abort();
   }
   catch (const std::exception& e) {
      std::cout << "HARNESS-ERROR " << e.what() << "\n";
      return 2;
   }
   std::cerr << "usage: specs replay|record\n";
   return 2;
}
