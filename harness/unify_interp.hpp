// The interpreter of unification requests (one Lexicon) and the random request generator, shared by the
// unify and threads harnesses.
#ifndef VERIF_UNIFY_INTERP_HPP
#define VERIF_UNIFY_INTERP_HPP
#include <algorithm>
#include <deque>
#include <random>
#include <set>
#include <sstream>
#include "world.hpp"

namespace vu {
   using vj::Value;
   namespace impl = ipr::impl;
   struct Interp {
      vh::World w;
      std::deque<impl::ref_sequence<ipr::Type>> own_seqs;
      // operand pools for the random driver (ids by sort)
      std::vector<int> types, exprs, idents, products, sums, linkages, callconvs, transfers, logograms,
         exprlists, templates, foralls;

      Interp()
      {
         w.init_consts();
         for (int k : {12, 3, 2, 1}) types.push_back(k);
         for (int k : {27, 28, 29}) exprs.push_back(k);
         for (int k : {49, 39, 67, 70}) idents.push_back(k);
         linkages = {34, 35};
         callconvs = {37};
         transfers = {36};
      }

      static Value no_obs(const char* c = "None")
      {
         auto o = Value::object();
         o.set("c", c).set("ops", Value::array()).set("q", 0).set("w", "").set("w2", "").set("ty", 0).set("bad", "");
         return o;
      }

      void note(int id, const std::string& c)
      {
         auto add = [id](std::vector<int>& v) { if (std::find(v.begin(), v.end(), id) == v.end()) v.push_back(id); };
         static const std::set<std::string> type_cats { "Pointer", "Reference", "Rvalue_reference", "Array",
            "Qualified", "Function", "Product", "Sum", "Forall", "Ptr_to_member", "Tor", "As_type", "As_type_id",
            "Decltype", "Auto", "Class" };
         if (type_cats.count(c)) add(types);
         if (c == "Symbol" or c == "Literal" or c == "Phantom") add(exprs);
         if (c == "Identifier") add(idents);
         if (c == "Product") add(products);
         if (c == "Sum") add(sums);
         if (c == "Forall") add(foralls);
         if (c == "Linkage") add(linkages);
         if (c == "CallConv") add(callconvs);
         if (c == "Transfer") add(transfers);
         if (c == "Logogram") add(logograms);
         if (c == "Expr_list") add(exprlists);
         if (c == "Template") add(templates);
      }

      // Execute one request; returns the event.
      Value exec(const Value& req)
      {
         const std::string op = req.at("op").as_str();
         std::vector<int> a;
         if (auto p = req.find("a"))
            for (auto& x : *p->a) a.push_back(static_cast<int>(x.as_int()));
         const int q = static_cast<int>(req.get_int("q", 0));
         const std::string wd = req.get_str("w", "");
         const std::u8string u = vh::u8(wd);

         auto ev = Value::object();
         auto aa = Value::array();
         for (int x : a) aa.push(x);
         ev.set("op", op).set("a", aa).set("q", q).set("w", wd);

         auto& lx = w.lex;
         auto T = [&](int k) -> const ipr::Type& { return w.as<ipr::Type>(a.at(k)); };
         auto E = [&](int k) -> const ipr::Expr& { return w.as<ipr::Expr>(a.at(k)); };
         auto P = [&](int k) -> const ipr::Product& { return w.as<ipr::Product>(a.at(k)); };
         auto X = [&](int k) -> const ipr::Transfer& { return w.xfer(a.at(k)); };
         auto I = [&](int k) -> const ipr::Identifier& { return w.as<ipr::Identifier>(a.at(k)); };
         int r = 0;
         bool opaque = false, truth = false;
         std::string out = "ok";
         try {
            if (op == "get_pointer") r = w.reg(lx.get_pointer(T(0)));
            else if (op == "get_reference") r = w.reg(lx.get_reference(T(0)));
            else if (op == "get_rvalue_reference") r = w.reg(lx.get_rvalue_reference(T(0)));
            else if (op == "get_array") r = w.reg(lx.get_array(T(0), E(1)));
            else if (op == "get_qualified") r = w.reg(lx.get_qualified(w.quals(q), T(0)));
            else if (op == "get_function") r = w.reg(lx.get_function(P(0), T(1)));
            else if (op == "get_function_x") r = w.reg(lx.get_function(P(0), T(1), X(2)));
            else if (op == "get_function_e") r = w.reg(lx.get_function(P(0), T(1), E(2)));
            else if (op == "get_function_ex") r = w.reg(lx.get_function(P(0), T(1), E(2), X(3)));
            else if (op == "get_product" or op == "get_sum") {
               impl::Warehouse<ipr::Type> wh;
               for (std::size_t k = 0; k < a.size(); ++k) wh.push_back(T(static_cast<int>(k)));
               r = op == "get_product" ? w.reg(lx.get_product(wh)) : w.reg(lx.get_sum(wh));
            }
            else if (op == "get_product_ref" or op == "get_sum_ref") {
               // a sequence object owned by the caller (kept alive as long as the Lexicon), not the interned one
               own_seqs.emplace_back();
               for (std::size_t k = 0; k < a.size(); ++k) own_seqs.back().push_back(&T(static_cast<int>(k)));
               const ipr::Sequence<ipr::Type>& sq = own_seqs.back();
               r = op == "get_product_ref" ? w.reg(lx.get_product(sq)) : w.reg(lx.get_sum(sq));
            }
            else if (op == "get_product_of" or op == "get_sum_of") {
               const ipr::Sequence<ipr::Type>* s = nullptr;
               if (auto p = dynamic_cast<const ipr::Product*>(w.ent(a.at(0)).node)) s = &p->elements();
               else s = &w.as<ipr::Sum>(a.at(0)).elements();
               r = op == "get_product_of" ? w.reg(lx.get_product(*s)) : w.reg(lx.get_sum(*s));
            }
            else if (op == "get_forall") r = w.reg(lx.get_forall(P(0), T(1)));
            else if (op == "get_ptr_to_member") r = w.reg(lx.get_ptr_to_member(T(0), T(1)));
            else if (op == "get_tor") r = w.reg(lx.get_tor(P(0), w.as<ipr::Sum>(a.at(1))));
            else if (op == "get_as_type") r = w.reg(lx.get_as_type(E(0)));
            else if (op == "get_as_type_x") r = w.reg(lx.get_as_type(E(0), X(1)));
            else if (op == "get_as_type_id") r = w.reg(lx.get_as_type(I(0)));
            else if (op == "get_decltype") r = w.reg(lx.get_decltype(E(0)));
            else if (op == "get_auto") r = w.reg(lx.get_auto());
            else if (op == "get_transfer_from_linkage") r = w.reg(lx.get_transfer_from_linkage(w.linkage(a.at(0))));
            else if (op == "get_transfer_from_convention") r = w.reg(lx.get_transfer_from_convention(w.callconv(a.at(0))));
            else if (op == "get_transfer") r = w.reg(lx.get_transfer(w.linkage(a.at(0)), w.callconv(a.at(1))));
            else if (op == "get_identifier_s") r = w.reg(lx.get_identifier(lx.get_string(u)));
            else if (op == "get_operator_s") r = w.reg(lx.get_operator(lx.get_string(u)));
            else if (op == "get_linkage_s") r = w.reg(lx.get_linkage(lx.get_string(u)));
            else if (op == "get_literal_s") r = w.reg(lx.get_literal(T(0), lx.get_string(u)));
            else if (op == "make_literal_s") r = w.reg(*lx.make_literal(T(0), lx.get_string(u)));
            else if (op == "get_identifier") r = w.reg(lx.get_identifier(u));
            else if (op == "get_operator") r = w.reg(lx.get_operator(u));
            else if (op == "get_suffix") r = w.reg(lx.get_suffix(I(0)));
            else if (op == "get_conversion") r = w.reg(lx.get_conversion(T(0)));
            else if (op == "get_ctor_name") r = w.reg(lx.get_ctor_name(T(0)));
            else if (op == "get_dtor_name") r = w.reg(lx.get_dtor_name(T(0)));
            else if (op == "get_guide_name") r = w.reg(lx.get_guide_name(w.as<ipr::Template>(a.at(0))));
            else if (op == "get_template_id")
               r = w.reg(lx.get_template_id(w.as<ipr::Expr>(a.at(0)), w.as<ipr::Expr_list>(a.at(1))));
            else if (op == "get_logogram") r = w.reg_logo(lx.get_logogram(lx.get_string(u)));
            else if (op == "get_symbol") r = w.reg(lx.get_symbol(w.as<ipr::Name>(a.at(0)), T(1)));
            else if (op == "get_label") r = w.reg(lx.get_label(I(0)));
            else if (op == "get_this") r = w.reg(lx.get_this(T(0)));
            else if (op == "get_literal") r = w.reg(lx.get_literal(T(0), u));
            else if (op == "make_literal") r = w.reg(*lx.make_literal(T(0), u));
            else if (op == "get_linkage") r = w.reg(lx.get_linkage(u));
            else if (op == "get_calling_convention") r = w.reg(lx.get_calling_convention(u));
            else if (op == "eq_linkage") {
               auto& x = w.linkage(a.at(0)); auto& y = w.linkage(a.at(1));
               r = x == y; truth = true;
               if ((x != y) == (x == y)) out = "eq-ne-inconsistent";
            }
            else if (op == "eq_callconv") {
               auto& x = w.callconv(a.at(0)); auto& y = w.callconv(a.at(1));
               r = x == y; truth = true;
               if ((x != y) == (x == y)) out = "eq-ne-inconsistent";
            }
            else if (op == "eq_transfer") {
               auto& x = w.xfer(a.at(0)); auto& y = w.xfer(a.at(1));
               r = x == y; truth = true;
               if ((x != y) == (x == y)) out = "eq-ne-inconsistent";
            }
            else if (op == "eq_logogram") {
               auto& x = w.logogram(a.at(0)); auto& y = w.logogram(a.at(1));
               r = x == y; truth = true;
               if ((x != y) == (x == y)) out = "eq-ne-inconsistent";
            }
            else if (op == "mk_class") { r = w.reg(*lx.make_class(*w.unit.global_region())); opaque = true; }
            else if (op == "mk_phantom") { r = w.reg(*lx.make_phantom()); opaque = true; }
            else if (op == "mk_expr_list") { r = w.reg(*lx.make_expr_list()); opaque = true; }
            else if (op == "mk_template") {
               r = w.reg(*w.unit.global_scope()->make_primary_template(w.as<ipr::Name>(a.at(0)), w.as<ipr::Forall>(a.at(1))));
               opaque = true;
            }
            else
               throw vh::HarnessError("unknown op " + op);
         }
         catch (const vh::HarnessError&) { throw; }
         catch (const std::logic_error&) { out = "refused"; r = 0; }
         catch (const std::exception& e) { out = std::string("exception:") + typeid(e).name(); r = 0; }
         catch (...) { out = "exception:unknown"; r = 0; }

         ev.set("out", out).set("r", r);
         if (out != "ok" or truth)
            ev.set("o", no_obs());
         else if (opaque) {
            auto c = vh::cat_name(w.ent(r).node->category);
            ev.set("o", no_obs(c));
            note(r, c);
         }
         else {
            auto o = w.obs(r);
            note(r, o.at("c").as_str());
            ev.set("o", o);
         }
         return ev;
      }
   };


   // The first line of every execution: the identities the constants got (1..71 when they are pairwise distinct),
   // what each constant reads as, and whether a second Lexicon alive at the same time returns the very same nodes.
   inline Value init_event(Interp& in)
   {
      auto init = Value::object();
      auto cs = Value::array(), obs = Value::array();
      for (int c : in.w.consts) cs.push(c);
      for (int id = 1; id <= vh::World::NConst; ++id) obs.push(in.w.obs(id));
      bool shared = true;
      {
         vh::World other;
         other.init_consts();
         for (int id = 1; id <= vh::World::NConst - 1 and shared; ++id)      // 71 is the per-unit name of the global namespace
            shared = other.ent(id).raw == in.w.ent(id).raw;
      }
      init.set("op", "init").set("a", cs).set("q", 0).set("w", "").set("out", "ok").set("r", 0).set("o", Interp::no_obs())
         .set("consts", obs).set("shared", shared);
      return init;
   }

   // Random driver
   struct Rng {
      std::mt19937_64 g;
      explicit Rng(unsigned long s) : g{s} { }
      int below(int n) { return n <= 0 ? 0 : static_cast<int>(g() % static_cast<unsigned long>(n)); }
      int focus = 0;           // > 0: three picks out of four come from the first `focus` entries, so that keys share coordinates
      int pick(const std::vector<int>& v)
      {
         if (focus > 0 and static_cast<int>(v.size()) > focus and below(4) != 0) return v.at(below(focus));
         return v.at(below(static_cast<int>(v.size())));
      }
      int any(const std::vector<int>& v) { return v.at(below(static_cast<int>(v.size()))); }
      bool coin(int pct) { return below(100) < pct; }
   };

   const std::vector<std::string> all_ops {
      "get_pointer", "get_reference", "get_rvalue_reference", "get_array", "get_qualified", "get_function",
      "get_function_x", "get_function_e", "get_function_ex", "get_product", "get_sum", "get_product_ref", "get_sum_ref", "get_product_of",
      "get_sum_of", "get_forall", "get_ptr_to_member", "get_tor", "get_as_type", "get_as_type_x", "get_as_type_id",
      "get_decltype", "get_auto", "get_transfer_from_linkage", "get_transfer_from_convention", "get_transfer",
      "get_identifier", "get_operator", "get_suffix", "get_conversion", "get_ctor_name", "get_dtor_name",
      "get_guide_name", "get_template_id", "get_logogram", "get_symbol", "get_label", "get_this", "get_literal",
      "make_literal", "get_linkage", "get_calling_convention", "get_identifier_s", "get_operator_s", "get_linkage_s",
      "get_literal_s", "make_literal_s", "eq_linkage", "eq_callconv", "eq_transfer",
      "eq_logogram", "mk_class", "mk_phantom", "mk_expr_list", "mk_template" };

   const std::vector<std::string> words { "", "a", "b", "foo", "bar", "int", "C", "C++", "Java", "cdecl", "this",
      "default", "const", "unsigned long long", "static", "x1", "operator", "+", "new[]", "zz" };

   inline std::vector<std::string> vocabulary = words;       // the spellings random requests draw from (--wordset)

   // Build a random request that is well-sorted for the current pools; returns false if impossible now.
   bool random_request(Interp& in, Rng& rng, const std::string& op, Value& req)
   {
      req = Value::object();
      auto a = Value::array();
      int q = 0;
      std::string wd;
      auto need = [](const std::vector<int>& v) { return not v.empty(); };
      auto anyexpr = [&]() { return rng.coin(50) ? rng.pick(in.exprs) : rng.pick(in.types); };
      if (op == "get_pointer" or op == "get_reference" or op == "get_rvalue_reference" or op == "get_conversion"
          or op == "get_ctor_name" or op == "get_dtor_name" or op == "get_this")
         a.push(rng.pick(in.types));
      else if (op == "get_array") { a.push(rng.pick(in.types)); a.push(anyexpr()); }
      else if (op == "get_qualified") { a.push(rng.pick(in.types)); q = rng.coin(8) ? 0 : rng.coin(12) ? (8 << rng.below(2)) | rng.below(8) : 1 + rng.below(7); }
      else if (op == "get_function" or op == "get_forall") {
         if (not need(in.products)) return false;
         a.push(rng.pick(in.products)); a.push(rng.pick(in.types));
      }
      else if (op == "get_function_x") {
         if (not need(in.products)) return false;
         a.push(rng.pick(in.products)); a.push(rng.pick(in.types)); a.push(rng.any(in.transfers));
      }
      else if (op == "get_function_e") {
         if (not need(in.products)) return false;
         a.push(rng.pick(in.products)); a.push(rng.pick(in.types)); a.push(anyexpr());
      }
      else if (op == "get_function_ex") {
         if (not need(in.products)) return false;
         a.push(rng.pick(in.products)); a.push(rng.pick(in.types)); a.push(anyexpr()); a.push(rng.any(in.transfers));
      }
      else if (op == "get_product" or op == "get_sum" or op == "get_product_ref" or op == "get_sum_ref") {
         int n = rng.below(4);
         for (int k = 0; k < n; ++k) a.push(rng.pick(in.types));
      }
      else if (op == "get_product_of" or op == "get_sum_of") {
         if (not need(in.products) and not need(in.sums)) return false;
         a.push(need(in.sums) and (not need(in.products) or rng.coin(40)) ? rng.pick(in.sums) : rng.pick(in.products));
      }
      else if (op == "get_ptr_to_member") { a.push(rng.pick(in.types)); a.push(rng.pick(in.types)); }
      else if (op == "get_tor") {
         if (not need(in.products) or not need(in.sums)) return false;
         a.push(rng.pick(in.products)); a.push(rng.pick(in.sums));
      }
      else if (op == "get_as_type") a.push(anyexpr());
      else if (op == "get_as_type_x") { a.push(anyexpr()); a.push(rng.any(in.transfers)); }
      else if (op == "get_as_type_id" or op == "get_suffix" or op == "get_label") a.push(rng.pick(in.idents));
      else if (op == "get_decltype") a.push(rng.coin(30) ? 29 : anyexpr());
      else if (op == "get_auto") { }
      else if (op == "get_transfer_from_linkage") a.push(rng.any(in.linkages));
      else if (op == "get_transfer_from_convention") a.push(rng.any(in.callconvs));
      else if (op == "get_transfer") { a.push(rng.any(in.linkages)); a.push(rng.any(in.callconvs)); }
      else if (op == "get_identifier" or op == "get_operator" or op == "get_logogram" or op == "get_linkage"
               or op == "get_calling_convention" or op == "get_identifier_s" or op == "get_operator_s" or op == "get_linkage_s")
         wd = vocabulary[static_cast<std::size_t>(rng.below(static_cast<int>(vocabulary.size())))];
      else if (op == "get_guide_name") { if (not need(in.templates)) return false; a.push(rng.pick(in.templates)); }
      else if (op == "get_template_id") {
         if (not need(in.exprlists)) return false;
         a.push(anyexpr()); a.push(rng.pick(in.exprlists));
      }
      else if (op == "get_symbol") { a.push(rng.pick(in.idents)); a.push(rng.pick(in.types)); }
      else if (op == "get_literal" or op == "make_literal" or op == "get_literal_s" or op == "make_literal_s") {
         a.push(rng.pick(in.types)); wd = vocabulary[static_cast<std::size_t>(rng.below(static_cast<int>(vocabulary.size())))];
      }
      else if (op == "eq_linkage") { a.push(rng.any(in.linkages)); a.push(rng.any(in.linkages)); }
      else if (op == "eq_callconv") { a.push(rng.any(in.callconvs)); a.push(rng.any(in.callconvs)); }
      else if (op == "eq_transfer") { a.push(rng.any(in.transfers)); a.push(rng.any(in.transfers)); }
      else if (op == "eq_logogram") {
         if (not need(in.logograms)) return false;
         a.push(rng.pick(in.logograms)); a.push(rng.pick(in.logograms));
      }
      else if (op == "mk_class" or op == "mk_phantom" or op == "mk_expr_list") { }
      else if (op == "mk_template") {
         if (not need(in.foralls)) return false;
         a.push(rng.pick(in.idents)); a.push(rng.pick(in.foralls));
      }
      else return false;
      req.set("op", op).set("a", a).set("q", q).set("w", wd);
      return true;
   }

}
#endif
