// Harness for spec/IprPrinter*.tla (properties C17 and C18).
//   printer sweep        every node of the zoo through every entry point it fits (each print in a forked child with a
//                        time limit), every single-byte literal, literals with \1..\3, all five delimiters; each followed
//                        by numbers written on the same stream.  stdout: ndjson for IprPrinterTrace
//   printer replay       stdin: statement trees from IprPrinterMC; stdout: "T <event>" lines (C18 events, and the C17
//                        events: twin lexicons, repeated printing, locations on/off)
#include <algorithm>
#include <csignal>
#include <cstdio>
#include <cstdlib>
#include <functional>
#include <iostream>
#include <random>
#include <sstream>
#include <sys/wait.h>
#include <unistd.h>
#include <ipr/io>
#include "zoo.hpp"

using vj::Value;
using namespace vm;

namespace {
   Value state_of(ipr::Printer& pp, std::ostream& os)
   {
      auto st = Value::object();
      auto fl = os.flags();
      auto base = fl & std::ios_base::basefield;
      st.set("indent", pp.indent())
         .set("base", base == std::ios_base::oct ? "oct" : base == std::ios_base::hex ? "hex" : "dec")
         .set("flags", static_cast<long>((fl ^ std::ostringstream{}.flags()) & ~std::ios_base::basefield))   // 0 = as a fresh stream
         .set("fill", static_cast<long>(static_cast<unsigned char>(os.fill())))
         .set("width", static_cast<long>(os.width())).set("prec", static_cast<long>(os.precision()));
      return st;
   }
   Value bytes_of(const std::string& s)
   {
      auto a = Value::array();
      for (unsigned char c : s) a.push(static_cast<long>(c));
      return a;
   }
   Value ctl_of(const std::string& s)
   {
      std::set<int> seen;
      for (unsigned char c : s) if ((c < 0x20 and c != '\n') or c == 0x7f) seen.insert(c);
      auto a = Value::array();
      for (int c : seen) a.push(c);
      return a;
   }

   struct Session {
      const ipr::Lexicon& lex;
      std::ostringstream os;
      ipr::Printer pp;
      explicit Session(const ipr::Lexicon& l) : lex{l}, pp{l, os} { }

      // one complete print through an entry point
      template<class F> Value print(const char* entry, const std::string& what, const std::string& spellings, F emit)
      {
         auto ev = Value::object();
         ev.set("e", "print").set("entry", entry).set("what", what);
         auto before = state_of(pp, os);
         auto mark = os.str().size();
         std::string out = "ok";
         try { emit(); }
         catch (const std::logic_error&) { out = "logic_error"; }
         catch (const std::exception& e) { out = std::string("exception:") + typeid(e).name(); }
         catch (...) { out = "exception:unknown"; }
         auto text = os.str().substr(mark);
         ev.set("out", out).set("before", before).set("after", state_of(pp, os)).set("ctl", ctl_of(text))
            .set("spelled", ctl_of(spellings)).set("len", static_cast<long>(text.size()));
         return ev;
      }
      // numbers written on the same stream after whatever was printed before
      std::vector<Value> numbers()
      {
         std::vector<Value> out;
         auto one = [&](const char* kind, long value, auto emit) {
            auto mark = os.str().size();
            emit();
            auto ev = Value::object();
            ev.set("e", "number").set("kind", kind).set("value", value).set("bytes", bytes_of(os.str().substr(mark)));
            out.push_back(ev);
         };
         one("position", 64, [&] { pp << ipr::Decl_position{64}; });
         one("level", 10, [&] { pp << ipr::Mapping_level{10}; });
         // small, round and very large values (the largest the specification's integers hold)
         one("position", 0, [&] { pp << ipr::Decl_position{0}; });
         one("position", 1000000, [&] { pp << ipr::Decl_position{1000000}; });
         one("position", 2147483647, [&] { pp << ipr::Decl_position{2147483647}; });
         one("level", 0, [&] { pp << ipr::Mapping_level{0}; });
         one("level", 2147483647, [&] { pp << ipr::Mapping_level{2147483647}; });
         return out;
      }
   };

   void emit(const Value& v, bool tagged) { std::cout << (tagged ? "T " : "") << vj::dump(v) << "\n"; }

   // run f in a forked child; its stdout is ours; returns "" if the child ended normally, else a description
   template<class F> std::string in_child(F f, int seconds)
   {
      std::cout.flush();
      pid_t pid = fork();
      if (pid == 0) {
         alarm(static_cast<unsigned>(seconds));
         f();
         std::cout.flush();
         _exit(0);
      }
      int status = 0;
      waitpid(pid, &status, 0);
      if (WIFEXITED(status) and WEXITSTATUS(status) == 0) return { };
      if (WIFSIGNALED(status)) return WTERMSIG(status) == SIGALRM ? "timeout" : "crash:signal" + std::to_string(WTERMSIG(status));
      return "crash:exit" + std::to_string(WEXITSTATUS(status));
   }

   Value fresh_state()
   {
      auto st = Value::object();
      st.set("indent", 0).set("base", "dec").set("flags", 0).set("fill", 32).set("width", 0).set("prec", 6);
      return st;
   }

   int do_sweep()
   {
      Zoo z;
      z.build();
      auto& lex = z.mk.w.lex;
      long n = 0;
      auto offer = [&](const char* entry, const std::string& what, const std::string& spellings, auto printer) {
         ++n;
         auto nw = Value::object();
         nw.set("e", "new");
         emit(nw, false);
         auto bad = in_child([&] {
            Session s { lex };
            emit(s.print(entry, what, spellings, [&] { printer(s.pp); }), false);
            for (auto& ev : s.numbers()) emit(ev, false);
         }, 20);
         if (not bad.empty()) {
            // the child died: what the parent can say about this print
            auto ev = Value::object();
            ev.set("e", "print").set("entry", entry).set("what", what).set("out", bad).set("before", fresh_state())
               .set("after", fresh_state()).set("ctl", Value::array()).set("spelled", Value::array()).set("len", 0);
            emit(ev, false);
         }
      };
      for (auto& p : z.all) {
         const ipr::Node& node = *p.first;
         auto what = std::string(vh::cat_name(node.category)) + " <- " + p.second;
         if (auto e = dynamic_cast<const ipr::Expr*>(&node)) {
            offer("xpr_expr", what, "", [e](ipr::Printer& pp) { pp << ipr::xpr_expr(*e); });
            offer("xpr_stmt", what, "", [e](ipr::Printer& pp) { pp << ipr::xpr_stmt(*e); });
            offer("xpr_decl", what, "", [e](ipr::Printer& pp) { pp << ipr::xpr_decl(*e, true); });
         }
         if (auto t = dynamic_cast<const ipr::Type*>(&node))
            offer("xpr_type", what, "", [t](ipr::Printer& pp) { pp << ipr::xpr_type(*t); });
      }
      offer("unit", "Translation_unit", "", [&](ipr::Printer& pp) { pp << static_cast<const ipr::Translation_unit&>(z.mk.w.unit); });
      // literals over all byte values, alone and next to \1..\3
      for (int b = 0; b < 256; ++b) {
         std::string sp(1, static_cast<char>(b));
         for (auto s : { sp, std::string("a") + sp + "\1", std::string("\2") + sp }) {
            auto lit = lex.make_literal(lex.int_type(), vh::u8(s));
            offer("xpr_expr", "Literal " + vh::hex(s), s, [lit](ipr::Printer& pp) { pp << ipr::xpr_expr(*lit); });
         }
      }
      for (int d = 0; d < 5; ++d) {
         // every delimiter kind around every shape of operand: a literal, an empty list, lists of one and two, nothing at all,
         // another enclosure; alone and as the initializer of a variable
         auto empty = lex.make_expr_list();
         auto one = lex.make_expr_list(); one->push_back(lex.make_literal(lex.int_type(), u8"1"));
         auto two = lex.make_expr_list(); two->push_back(lex.make_literal(lex.int_type(), u8"1")); two->push_back(lex.make_literal(lex.int_type(), u8"2"));
         std::vector<std::pair<std::string, const ipr::Expr*>> operands {
            {"literal", lex.make_literal(lex.int_type(), u8"1")}, {"empty list", empty}, {"list of one", one}, {"list of two", two},
            {"phantom", lex.make_phantom()}, {"enclosure", lex.make_enclosure(ipr::Delimiter::Nothing, *lex.make_expr_list())} };
         for (auto& o : operands) {
            auto enc = lex.make_enclosure(static_cast<ipr::Delimiter>(d), *o.second);
            auto what = "Enclosure delimiter " + std::to_string(d) + " around " + o.first;
            offer("xpr_expr", what, "", [enc](ipr::Printer& pp) { pp << ipr::xpr_expr(*enc); });
            auto v = z.mk.w.unit.global_region()->declare_var(lex.get_identifier(vh::u8("enc" + std::to_string(d) + o.first)), lex.int_type());
            v->init = enc;
            offer("xpr_decl", what + " as initializer", "", [v](ipr::Printer& pp) { pp << ipr::xpr_decl(*v, true); });
         }
      }
      // deep nesting and large pending indentation: every nesting construct repeated, and mixed, to depths where the
      // indentation no longer fits whatever small unit an implementation writes it in
      {
         auto cond = [&]() -> const ipr::Expr& { return *lex.make_literal(lex.bool_type(), u8"c"); };
         const std::vector<std::string> kinds { "block", "if", "ifelse", "while", "do", "switch", "for", "labeled", "try", "handler", "mixed" };
         for (auto& kind : kinds)
            for (int depth : { 1, 2, 3, 5, 8, 10, 11, 12, 16, 21, 22, 33, 43, 64, 90 }) {
               // regions first (outside in), statements afterwards (inside out)
               std::vector<impl::Block*> blocks;
               std::vector<impl::handler_block*> bodies;
               const ipr::Region* r = z.mk.w.unit.global_region();
               auto kind_at = [&](int level) -> std::string {
                  if (kind != "mixed") return kind;
                  static const char* rot[] = { "block", "if", "while", "try", "handler", "switch", "ifelse" };
                  return rot[level % 7];
               };
               for (int k = 0; k < depth; ++k) {
                  auto kd = kind_at(k);
                  if (kd == "block" or kd == "try" or kd == "handler") {
                     auto b = lex.make_block(*r);
                     blocks.push_back(b);
                     if (kd == "handler") {
                        auto h = b->new_handler(lex.get_identifier(u8"e"), lex.int_type());
                        r = &h->body().lexical_region;
                        bodies.push_back(&h->body());
                     }
                     else r = &b->lexical_region;
                  }
               }
               const ipr::Stmt* cur = lex.make_break();
               std::size_t bi = blocks.size(), hi = bodies.size();
               for (int k = depth - 1; k >= 0; --k) {
                  auto kd = kind_at(k);
                  if (kd == "block" or kd == "try") {
                     auto b = blocks[--bi];
                     b->add_stmt(*cur);
                     if (kd == "try") b->new_handler(lex.get_identifier(u8"e"), lex.int_type())->body().add_stmt(*lex.make_break());
                     cur = b;
                  }
                  else if (kd == "handler") {
                     auto body = bodies[--hi];
                     body->add_stmt(*cur);
                     auto b = blocks[--bi];
                     b->add_stmt(*lex.make_break());
                     cur = b;
                  }
                  else if (kd == "if") cur = lex.make_if(cond(), *cur);
                  else if (kd == "ifelse") cur = lex.make_if(cond(), *lex.make_break(), *cur);
                  else if (kd == "while") { auto w = lex.make_while(); w->control = &cond(); w->stmt = cur; cur = w; }
                  else if (kd == "do") { auto w = lex.make_do(); w->control = &cond(); w->stmt = cur; cur = w; }
                  else if (kd == "switch") { auto w = lex.make_switch(); w->control = &cond(); w->stmt = cur; cur = w; }
                  else if (kd == "for") {
                     auto f = lex.make_for();
                     f->init = lex.make_phantom(); f->cond = &cond(); f->inc = lex.make_phantom(); f->stmt = cur;
                     cur = f;
                  }
                  else if (kd == "labeled") cur = lex.make_labeled_stmt(*lex.make_id_expr(lex.get_identifier(u8"l")), *cur);
               }
               offer("xpr_stmt", "deep " + kind + " x" + std::to_string(depth), "", [cur](ipr::Printer& pp) { pp << ipr::xpr_stmt(*cur); });
            }
         // graphs that refer back to themselves: a class (enum, namespace) whose member names the class as its type, as the
         // pointee of its type, as its initializer, or as the default of a template parameter; a function whose parameter's default
         // is the function; an alias of the namespace it sits in.  Names refer, they do not contain: printing must end.
         {
            auto& gr = *z.mk.w.unit.global_region();
            int knot = 0;
            auto nm = [&](const char* pre) -> const ipr::Name& { return lex.get_identifier(vh::u8(std::string(pre) + std::to_string(++knot))); };
            auto named_class = [&](const char* pre) {
               auto c = lex.make_class(gr);
               auto d = gr.declare_type(nm(pre), lex.class_type());
               c->id = &d->name();
               d->init = c;
               return std::pair{ c, d };
            };
            std::vector<std::pair<std::string, const ipr::Decl*>> knots;
            { auto [c, d] = named_class("SelfField"); c->declare_field(nm("f"), *c); knots.push_back({"class with a field of its own type", d}); }
            { auto [c, d] = named_class("SelfPtr"); c->declare_field(nm("f"), lex.get_pointer(*c)); knots.push_back({"class with a pointer to itself", d}); }
            { auto [c, d] = named_class("SelfInit"); auto v = c->body.declare_var(nm("v"), lex.int_type()); v->init = c; knots.push_back({"class with a member initialised by the class", d}); }
            { auto [c, d] = named_class("SelfInitDecl"); auto v = c->body.declare_var(nm("v"), lex.int_type()); v->init = d; knots.push_back({"class with a member initialised by the class's declaration", d}); }
            {
               auto [c, d] = named_class("SelfDefault");
               auto m = lex.make_mapping(c->body, ipr::Mapping_level{1});
               auto p = m->param(nm("T"), lex.typename_type());
               p->init = c;
               m->body = lex.make_literal(lex.int_type(), u8"0");
               impl::Warehouse<ipr::Type> wh; wh.push_back(lex.typename_type());
               auto& fa = lex.get_forall(lex.get_product(wh), lex.int_type());
               auto t = c->body.declare_primary_template(nm("h"), fa);
               t->init = m;
               knots.push_back({"class with a member template whose parameter defaults to the class", d});
            }
            {
               auto e = lex.make_enum(gr, ipr::Enum::Kind::Scoped);
               auto d = gr.declare_type(nm("SelfEnum"), lex.enum_type());
               e->id = &d->name(); d->init = e;
               e->add_member(nm("e"))->init = e;
               knots.push_back({"enumeration with an enumerator initialised by the enumeration", d});
            }
            {
               auto ns = lex.make_namespace(gr);
               auto d = gr.declare_type(nm("SelfNs"), lex.namespace_type());
               ns->id = &d->name(); d->init = ns;
               ns->body.scope.make_alias(nm("A"), *ns);
               knots.push_back({"namespace with an alias of itself", d});
            }
            {
               impl::Warehouse<ipr::Type> wh; wh.push_back(lex.int_type());
               auto& ft = lex.get_function(lex.get_product(wh), lex.int_type());
               auto f = gr.declare_fun(nm("selffun"), ft);
               auto m = lex.make_mapping(gr, ipr::Mapping_level{0});
               m->param(nm("x"), lex.int_type())->init = f;
               m->body = lex.make_block(m->parameters().region());
               static_cast<std::variant<impl::Parameter_list*, impl::Mapping*>&>(f->data) = m;
               knots.push_back({"function whose parameter defaults to the function", f});
            }
            for (auto& k : knots) {
               auto d = k.second;
               offer("xpr_decl", "knot: " + k.first, "", [d](ipr::Printer& pp) { pp << ipr::xpr_decl(*d); });
               offer("xpr_stmt", "knot: " + k.first, "", [d](ipr::Printer& pp) { pp << ipr::xpr_stmt(*d); });
               offer("xpr_expr", "knot: " + k.first, "", [d](ipr::Printer& pp) { pp << ipr::xpr_expr(*d); });
            }
         }
         auto blk = lex.make_block(*z.mk.w.unit.global_region());
         blk->add_stmt(*lex.make_break());
         blk->add_stmt(*lex.make_if(cond(), *lex.make_break()));
         for (int pre : { 1, 15, 16, 17, 29, 30, 31, 32, 33, 34, 61, 62, 63, 64, 65, 127, 128, 129, 255, 256, 257, 1000, 4097 })
            offer("xpr_stmt", "block at pending indentation " + std::to_string(pre), "", [blk, pre](ipr::Printer& pp) {
               pp.indent(pre);
               pp << ipr::xpr_stmt(*blk);
               pp.indent(-pre);
            });
      }
      return 0;
   }

   // ---------------------------------------------------------------------------------------------------
   // statement trees
   struct Program {
      impl::Lexicon lex;
      impl::Translation_unit unit { lex };
      std::vector<const ipr::Stmt*> order;          // tree statements in pre-order
      int counter = 0;
      bool noisy = false;
      bool edge = false;            // the Lexicon starts right before the end of a string storage block; the noise interns no words
      // called with the outermost block / try-block when all its statements but the last have been added (the unit is printed
      // while still under construction; what is printed in the end must not depend on that)
      std::function<void(const ipr::Stmt&)> pause;
      int nesting = 0;
      bool near_misses_done = false;
      std::mt19937_64 g { 7 };

      std::vector<void*> holes;
      ~Program() { for (auto p : holes) std::free(p); }
      void noise()
      {
         if (not noisy) return;
         // scramble the allocator: blocks of the sizes nodes have, some released again, so that later nodes do not
         // come out in increasing address order
         for (int k = 0; k < 30; ++k) holes.push_back(std::malloc(16 + (g() % 40) * 8));
         for (int k = 0; k < 12 and not holes.empty(); ++k) {
            auto i = g() % holes.size();
            std::free(holes[i]);
            holes.erase(holes.begin() + static_cast<long>(i));
         }
         // near misses of what the programs ask for, asked for first: the sequences of the program's products and sums cut short and
         // extended, their elements in another order, the qualifiers one at a time and all three, neighbouring array bounds, the
         // function types with and without their exception specification (no words are interned by these)
         if (not near_misses_done) {
            near_misses_done = true;
            const ipr::Lexicon& cl = lex;
            auto& pi = lex.get_pointer(lex.int_type());
            auto& pc = lex.get_pointer(lex.char_type());
            auto seq = [&](std::initializer_list<const ipr::Type*> ts) {
               impl::Warehouse<ipr::Type> w;
               for (auto t : ts) w.push_back(*t);
               return w;
            };
            for (auto w : { seq({ &lex.int_type() }), seq({ &pc }), seq({ &pi }), seq({ &pc, &lex.int_type() }), seq({ &lex.int_type(), &pc, &pi }),
                            seq({ &pi, &pc }), seq({ &pc, &pi, &pc }), seq({ &lex.int_type(), &lex.int_type() }) }) {
               auto& p = lex.get_product(w);
               auto& sm = lex.get_sum(w);
               lex.get_function(p, lex.void_type());
               lex.get_function(p, lex.int_type(), sm);
               lex.get_function(p, lex.void_type(), lex.true_value());
            }
            for (auto q : { cl.const_qualifier(), cl.volatile_qualifier(), cl.restrict_qualifier(),
                            cl.const_qualifier() | cl.volatile_qualifier() | cl.restrict_qualifier() }) {
               auto& qt = lex.get_qualified(q, lex.int_type());
               lex.get_array(qt, *lex.make_literal(lex.int_type(), u8"4"));
               lex.get_qualified(q, pi);
            }
            lex.get_array(lex.int_type(), *lex.make_literal(lex.int_type(), u8"4"));
            lex.get_array(pi, *lex.make_literal(lex.int_type(), u8"3"));
            lex.get_reference(lex.int_type()); lex.get_rvalue_reference(lex.int_type()); lex.get_pointer(pi); lex.get_pointer(pc);
         }
         for (int k = 0; k < 40 and not edge; ++k) {
            auto s = "noise" + std::to_string(g() % 100000);
            auto& id = lex.get_identifier(vh::u8(s));
            lex.get_pointer(lex.get_as_type(id));
            lex.make_phantom();
            lex.get_literal(lex.char_type(), vh::u8(s));
         }
      }
      const ipr::Name& name() { return lex.get_identifier(vh::u8("v" + std::to_string(++counter))); }
      const ipr::Expr& cond() { return *lex.make_literal(lex.bool_type(), u8"c"); }

      template<class S> S* located(S* s)
      {
         order.push_back(s);
         return s;
      }

      const ipr::Stmt& build(const Value& t, impl::Region& region)
      {
         noise();
         auto kind = t.at(0).as_str();
         // (the literal carries a code unit that the printer writes as an octal escape: whatever it does to the stream for that
         //  must not show in the numbers of the locations printed after it)
         if (kind == "expr") return *located(lex.make_expr_stmt(*lex.make_literal(lex.int_type(), u8"1\2")));
         if (kind == "decl") {
            // variables of varied types, so that the type productions (and the order in which products and sums list their
            // members) are part of every program
            auto& nm = name();
            const ipr::Type* t = &lex.int_type();
            switch (counter % 4) {
            case 1: {
               auto& pi = lex.get_pointer(lex.int_type());
               auto& pc = lex.get_pointer(lex.char_type());
               impl::Warehouse<ipr::Type> ps, es;
               ps.push_back(lex.int_type()); ps.push_back(pc);
               es.push_back(pc); es.push_back(pi);                        // listed against creation order
               t = &lex.get_function(lex.get_product(ps), lex.void_type(), lex.get_sum(es));
               break;
            }
            case 2:
               t = &lex.get_array(lex.get_qualified(static_cast<const ipr::Lexicon&>(lex).const_qualifier()
                                                    | static_cast<const ipr::Lexicon&>(lex).volatile_qualifier(), lex.int_type()),
                                  *lex.make_literal(lex.int_type(), u8"4"));
               break;
            case 3: {
               impl::Warehouse<ipr::Type> none;
               t = &lex.get_reference(lex.get_function(lex.get_product(none), lex.int_type()));
               break;
            }
            default: break;
            }
            return *located(region.declare_var(nm, *t));
         }
         if (kind == "class") {
            // a class definition with a base, members (one with specifiers, one bit-field) as a declaration statement
            auto c = lex.make_class(region);
            c->declare_base(lex.int_type());
            auto f = c->declare_field(name(), lex.get_pointer(lex.char_type()));
            f->specifiers(static_cast<const ipr::Lexicon&>(lex).mutable_specifier() | static_cast<const ipr::Lexicon&>(lex).public_specifier());
            auto bf = c->declare_bitfield(name(), lex.int_type());
            bf->length = lex.make_literal(lex.int_type(), u8"3");
            auto d = region.declare_type(name(), lex.class_type());
            c->id = &d->name();
            d->init = c;
            return *located(d);
         }
         if (kind == "enum") {
            auto e = lex.make_enum(region, ipr::Enum::Kind::Scoped);
            e->add_member(name());
            e->add_member(name())->init = lex.make_literal(lex.int_type(), u8"7");
            auto d = region.declare_type(name(), lex.enum_type());
            e->id = &d->name();
            d->init = e;
            return *located(d);
         }
         if (kind == "fun") {
            // a function definition: mapping with a parameter and a body block
            impl::Warehouse<ipr::Type> wh;
            wh.push_back(lex.int_type());
            auto m = lex.make_mapping(region, ipr::Mapping_level{1});
            m->param(name(), lex.int_type());
            auto body = lex.make_block(m->inputs.parms);
            body->add_stmt(*lex.make_return(*lex.make_literal(lex.int_type(), u8"0")));
            m->body = body;
            auto fd = region.declare_fun(name(), lex.get_function(lex.get_product(wh), lex.int_type()));
            m->typing = &fd->type();
            static_cast<std::variant<impl::Parameter_list*, impl::Mapping*>&>(fd->data) = m;
            fd->specifiers(static_cast<const ipr::Lexicon&>(lex).inline_specifier());
            return *located(fd);
         }
         if (kind == "arr") {
            auto& t = lex.get_array(lex.get_qualified(static_cast<const ipr::Lexicon&>(lex).const_qualifier(), lex.get_pointer(lex.int_type())),
                                    *lex.make_literal(lex.int_type(), u8"3"));
            auto v = region.declare_var(name(), t);
            v->init = lex.make_literal(lex.int_type(), u8"x\ty");
            return *located(v);
         }
         if (kind == "break") return *located(lex.make_break());
         if (kind == "return") return *located(lex.make_return(*lex.make_literal(lex.int_type(), u8"0")));
         if (kind == "block" or kind == "try") {
            auto b = located(lex.make_block(region));
            const bool outermost = nesting == 0;
            ++nesting;
            std::size_t left = t.at(1).a->size();
            for (auto& c : *t.at(1).a) {
               if (outermost and pause and --left == 0) pause(*b);
               b->add_stmt(build(c, b->lexical_region));
            }
            --nesting;
            if (kind == "try")
               for (auto& hb : *t.at(2).a) {
                  auto h = b->new_handler(name(), lex.int_type());
                  located(h);                         // the handler and the block that new_handler made for it carry locations too
                  located(&h->body());
                  h->body().add_stmt(build(hb, h->body().lexical_region));
               }
            return *b;
         }
         if (kind == "if") {
            auto mark = order.size();
            auto& s1 = build(t.at(1), region);
            auto n = lex.make_if(cond(), s1);
            order.insert(order.begin() + static_cast<long>(mark), n);
            return *n;
         }
         if (kind == "ifelse") {
            // pre-order: the if first
            auto mark = order.size();
            auto& s1 = build(t.at(1), region);
            auto& s2 = build(t.at(2), region);
            auto n = lex.make_if(cond(), s1, s2);
            order.insert(order.begin() + static_cast<long>(mark), n);
            return *n;
         }
         auto mark = order.size();
         auto& body = build(t.at(1), region);
         const ipr::Stmt* made = nullptr;
         if (kind == "while") { auto w = lex.make_while(); w->control = &cond(); w->stmt = &body; made = w; }
         else if (kind == "do") { auto w = lex.make_do(); w->control = &cond(); w->stmt = &body; made = w; }
         else if (kind == "switch") { auto w = lex.make_switch(); w->control = &cond(); w->stmt = &body; made = w; }
         else if (kind == "for") {
            auto f = lex.make_for();
            f->init = lex.make_phantom(); f->cond = &cond(); f->inc = lex.make_phantom(); f->stmt = &body;
            made = f;
         }
         else if (kind == "forin") {
            auto f = lex.make_for_in();
            f->var = region.declare_var(name(), lex.int_type()); f->seq = &cond(); f->stmt = &body;
            made = f;
         }
         else if (kind == "labeled") made = lex.make_labeled_stmt(*lex.make_id_expr(name()), body);
         else throw vh::HarnessError("unknown statement kind " + kind);
         order.insert(order.begin() + static_cast<long>(mark), made);
         return *made;
      }
   };

   std::string render(const ipr::Lexicon& lex, const ipr::Stmt& s, bool locations)
   {
      std::ostringstream os;
      ipr::Printer pp { lex, os };
      pp.print_locations = locations;
      try { pp << ipr::xpr_stmt(s); } catch (const std::logic_error&) { os << "<logic_error>"; }
      return os.str();
   }

   long digest(const Program& p)
   {
      unsigned long long h = 1469598103934665603ull;
      auto mix = [&](unsigned long long v) { h ^= v; h *= 1099511628211ull; };
      for (auto s : p.order) {
         mix(reinterpret_cast<std::uintptr_t>(s));
         mix(static_cast<unsigned>(s->category));
         auto& l = s->source_location();
         mix(static_cast<unsigned>(l.file)); mix(static_cast<unsigned>(l.line)); mix(static_cast<unsigned>(l.column));
         if (auto b = dynamic_cast<const ipr::Block*>(s)) { mix(b->body().size()); mix(b->handlers().size()); }
         try { mix(reinterpret_cast<std::uintptr_t>(&s->type())); } catch (const std::logic_error&) { mix(1); }
      }
      return static_cast<long>(h % 1000000007ull);
   }

   std::string tlc_unescape(const std::string& line)
   {
      auto b = line.find("\", \"");
      auto e = line.rfind("\">>");
      if (b == std::string::npos or e == std::string::npos) return { };
      std::string out;
      for (std::size_t k = b + 4; k < e; ++k) {
         if (line[k] == '\\' and k + 1 < e) { out += line[k + 1]; ++k; }
         else out += line[k];
      }
      return out;
   }
   struct LastBeh {
      FILE* f = nullptr;
      LastBeh() { if (auto p = std::getenv("VERIF_LASTBEH")) f = std::fopen(p, "w"); }
      void note(const std::string& text)
      {
         if (f == nullptr) return;
         std::rewind(f);
         std::fwrite(text.data(), 1, text.size(), f);
         std::fputc('\n', f);
         std::fflush(f);
         if (ftruncate(fileno(f), static_cast<off_t>(text.size() + 1)) != 0) { }
      }
   };

   // where do the location prefixes sit?  (a witness for the specification's Weave; it decides, not we)
   bool find_split(const std::string& on, const std::string& off, const std::vector<std::string>& pfx, std::size_t k,
                   std::size_t i, std::size_t j, std::vector<long>& split, std::vector<long>& reps)
   {
      if (k == pfx.size()) return on.substr(i) == off.substr(j);
      // try every length of the next piece of `off`, then one or more copies of the prefix
      for (std::size_t n = 0; j + n <= off.size() and i + n <= on.size(); ++n) {
         if (n > 0 and on[i + n - 1] != off[j + n - 1]) break;
         std::size_t at = i + n;
         long copies = 0;
         while (on.compare(at, pfx[k].size(), pfx[k]) == 0) {
            at += pfx[k].size();
            ++copies;
            split.push_back(static_cast<long>(n));
            reps.push_back(copies);
            if (find_split(on, off, pfx, k + 1, at, j + n, split, reps)) return true;
            split.pop_back();
            reps.pop_back();
         }
      }
      return false;
   }

   int do_replay()
   {
      std::ios::sync_with_stdio(false);
      std::string line;
      LastBeh lastbeh;
      long trees = 0, refused = 0;
      std::string sample;
      while (std::getline(std::cin, line)) {
         std::string text = line.rfind("<<\"BEH\"", 0) == 0 ? tlc_unescape(line) : line;
         if (text.empty() or text[0] != '[') continue;
         Value tree = vj::parse(text);
         lastbeh.note(text);
         ++trees;
         if (sample.empty() or trees == 500) sample = text;
         // -- C18: control state, outcome, control bytes, numbers
         Program a;
         auto& sa = a.build(tree, *a.unit.global_region());
         {
            auto nw = Value::object();
            nw.set("e", "new");
            emit(nw, true);
            Session s { a.lex };
            emit(s.print("xpr_stmt", text, "", [&] { s.pp << ipr::xpr_stmt(sa); }), true);
            for (auto& ev : s.numbers()) emit(ev, true);
         }
         // -- C17: same construction in another lexicon with unrelated allocations in between; printing again
         Program b;
         b.noisy = true;
         // one tree in four: the words of the program lie on both sides of a change of string storage block
         if (trees % 4 == 0) b.edge = vh::to_edge(b.lex, static_cast<int>((static_cast<unsigned long>(trees) * 2654435761ul >> 7) % 64));
         auto& sb = b.build(tree, *b.unit.global_region());
         auto da = digest(a), db = digest(b);
         auto ta = render(a.lex, sa, false);
         auto tb = render(b.lex, sb, false);
         auto ta2 = render(a.lex, sa, false);
         auto text_event = [&](const std::string& bytes, long d0, long d1, const char* who) {
            auto ev = Value::object();
            auto g = Value::array();
            g.push(d0).push(d1);
            ev.set("e", "text").set("key", text).set("who", who).set("bytes", bytes_of(bytes)).set("graph", g);
            emit(ev, true);
         };
         auto text_event_keyed = [&](const std::string& key, const std::string& bytes, long d0, long d1, const char* who) {
            auto ev = Value::object();
            auto g = Value::array();
            g.push(d0).push(d1);
            ev.set("e", "text").set("key", key).set("who", who).set("bytes", bytes_of(bytes)).set("graph", g);
            emit(ev, true);
         };
         text_event(ta, da, digest(a), "lexicon A");
         text_event(tb, db, digest(b), "lexicon B, interleaved with unrelated allocations");
         text_event(ta2, da, digest(a), "lexicon A, fresh printer");
         // -- C17: the same construction printed once before its last statement was added (with and without locations), then completed
         if (tree.at(0).as_str() == "block" or tree.at(0).as_str() == "try") {
            Program c;
            c.pause = [&c](const ipr::Stmt& sofar) { (void)render(c.lex, sofar, false); (void)render(c.lex, sofar, true); };
            auto& sc = c.build(tree, *c.unit.global_region());
            auto dc = digest(c);
            auto tc = render(c.lex, sc, false);
            text_event(tc, dc, digest(c), "lexicon C, printed once before its last statement was added");
         }
         // -- C17: locations on every second statement of the tree (pre-order), with and without a column
         std::vector<std::array<long, 3>> locs;
         for (std::size_t k = 0; k < a.order.size(); ++k) {
            if (k % 3 == 1) continue;            // two statements out of three carry a location
            auto st = const_cast<ipr::Stmt*>(a.order[k]);
            long file = 2 + static_cast<long>(k), ln = 10 + 3 * static_cast<long>(k), col = (k % 4 == 0) ? 0 : 5 + static_cast<long>(k);
            if (k % 5 == 2) { ln = 0; col = 0; }            // a location that names a file only (what a front end gives built-in entities)
            // the largest values the specification's integers can hold (ten digits: no room to spare in any fixed-size conversion)
            if (k % 7 == 3) { ln = 2147483647; col = 2147483647; }
            if (k % 11 == 5) file = 2147483647;
            ipr::Source_location loc;
            loc.file = ipr::File_index{static_cast<std::uint32_t>(file)};
            loc.line = ipr::Line_number{static_cast<std::uint32_t>(ln)};
            loc.column = ipr::Column_number{static_cast<std::uint32_t>(col)};
            // every statement implementation keeps its location in a public member of impl::Stmt<>
            bool set = false;
#define TRY(K) if (not set) if (auto p = dynamic_cast<impl::K*>(st)) { p->src_locus = loc; set = true; }
            TRY(Expr_stmt) TRY(Var) TRY(Typedecl) TRY(Fundecl) TRY(Break) TRY(Return) TRY(Block) TRY(If) TRY(While) TRY(Do) TRY(Switch) TRY(For) TRY(For_in) TRY(Labeled_stmt) TRY(Handler) TRY(handler_block)
#undef TRY
            if (set) locs.push_back({file, ln, col});
         }
         auto off = render(a.lex, sa, false);
         auto on = render(a.lex, sa, true);
         {
            // the same unit printed again by a fresh printer on the stream the first one wrote to: the same text once more
            std::ostringstream os;
            std::string first, second;
            for (std::string* half : { &first, &second }) {
               auto before = os.str().size();
               ipr::Printer pp { a.lex, os };
               pp.print_locations = true;
               try { pp << ipr::xpr_stmt(sa); } catch (const std::logic_error&) { os << "<logic_error>"; }
               *half = os.str().substr(before);
            }
            auto dg = digest(a);
            text_event_keyed(text + " (located)", first, dg, dg, "lexicon A, locations on, first printer on a stream");
            text_event_keyed(text + " (located)", second, dg, digest(a), "lexicon A, locations on, fresh printer on the same stream");
         }
         std::vector<std::string> pfx;
         for (auto& l : locs) {
            std::string p = "F" + std::to_string(l[0]) + ":" + std::to_string(l[1]);
            if (l[2] != 0) p += ":" + std::to_string(l[2]);
            pfx.push_back(p + " ");
         }
         // a refused print stops midway: the prefixes after that point were never due, and nothing is claimed about them
         if (on.find("<logic_error>") != std::string::npos or off.find("<logic_error>") != std::string::npos) { ++refused; continue; }
         std::vector<long> split, reps;
         if (not find_split(on, off, pfx, 0, 0, 0, split, reps)) { split.assign(locs.size(), 0); reps.assign(locs.size(), 1); }
         auto ev = Value::object();
         auto ls = Value::array(), sp = Value::array(), rp = Value::array();
         for (auto n : reps) rp.push(n);
         for (auto& l : locs) { auto t3 = Value::array(); t3.push(l[0]).push(l[1]).push(l[2]); ls.push(t3); }
         for (auto n : split) sp.push(n);
         ev.set("e", "located").set("key", text).set("on", bytes_of(on)).set("off", bytes_of(off)).set("locs", ls).set("split", sp).set("reps", rp);
         emit(ev, true);
      }
      auto s = Value::object();
      s.set("behaviours", trees).set("steps", trees * 8).set("failed", 0).set("fail_keys", Value::object()).set("classes", trees)
         .set("sample", sample).set("located_refused", refused);
      std::cout << "SUMMARY " << vj::dump(s) << "\n";
      return 0;
   }
   // spec/IprStmtRender.tla: the exact text of a statement tree
   int do_replay_render()
   {
      std::ios::sync_with_stdio(false);
      std::string line;
      LastBeh lastbeh;
      long behaviours = 0, failed = 0, printed = 0;
      std::map<std::string, long> fail_keys;
      std::set<std::string> classes;
      std::string sample;
      while (std::getline(std::cin, line)) {
         std::string text = line.rfind("<<\"BEH\"", 0) == 0 ? tlc_unescape(line) : line;
         if (text.empty() or text[0] != '{') continue;
         Value beh = vj::parse(text);
         lastbeh.note(text);
         ++behaviours;
         if (sample.empty() or behaviours == 700) sample = text;
         Program a;
         auto& t = beh.at("t");
         auto& sa = a.build(t, *a.unit.global_region());
         auto got = render(a.lex, sa, false);
         auto kind = t.at(0).as_str();
         std::string inner = "leaf";
         if (t.size() > 1 and t.at(1).is_arr() and t.at(1).size() > 0)
            inner = t.at(1).at(0).is_str() ? t.at(1).at(0).as_str() : (t.at(1).at(0).is_arr() and t.at(1).at(0).size() > 0 ? t.at(1).at(0).at(0).as_str() : "empty");
         classes.insert(kind + "<" + inner);
         if (got != beh.at("txt").as_str()) {
            ++failed;
            auto key = kind + ":" + inner;
            ++fail_keys[key];
            if (printed++ < 20) {
               auto f = Value::object();
               auto pre = Value::array();
               pre.push(t);
               f.set("key", key).set("step", 1).set("expected", beh.at("txt")).set("got", got).set("beh", pre);
               std::cout << "FAIL " << vj::dump(f) << "\n";
            }
         }
      }
      auto s = Value::object();
      auto fk = Value::object();
      for (auto& kv : fail_keys) fk.set(kv.first, kv.second);
      s.set("behaviours", behaviours).set("steps", behaviours).set("failed", failed).set("fail_keys", fk)
         .set("classes", static_cast<long>(classes.size())).set("sample", sample);
      std::cout << "SUMMARY " << vj::dump(s) << "\n";
      return 0;
   }
}

int main(int argc, char** argv)
{
   std::string mode = argc > 1 ? argv[1] : "";
   try {
      if (mode == "sweep") return do_sweep();
      if (mode == "replay") return do_replay();
      if (mode == "replay-render") return do_replay_render();
   }
   catch (const std::logic_error& e) {
      // the library throws logic errors, the harness run-time errors: one that arrives here escaped from a call of the library
      // where the harness expected none -- recorded like a crash (a terminal event), not as a failure of the harness
      std::cout.flush();
      std::cerr << "exception of the library escaped: " << e.what() << "\n";
      std::abort();
   }
   catch (const std::exception& e) {
      std::cout << "HARNESS-ERROR " << e.what() << "\n";
      return 2;
   }
   return 2;
}
