// Harness for spec/IprThreads*.tla (property C20): T threads, each with its own Lexicon, each running its own random
// history of unification requests, scope declarations and printing, started together and yielding at random points.
//   threads record --seed S --threads T --len L --rounds R
// stdout: per thread the ndjson trace of its history in the vocabulary of IprUnifyTrace (one execution per thread and
// round), followed by {"op":"isolation",...}: how many node addresses two different Lexicons have in common beyond the
// process-wide constants.
#include <atomic>
#include <memory>
#include <cstdlib>
#include <iostream>
#include <sstream>
#include <thread>
#include <ipr/io>
#include "unify_interp.hpp"

using vj::Value;
using namespace vu;

namespace {
   struct Work {
      std::vector<std::string> lines;
      std::set<const void*> addresses;         // every non-constant entity this thread's Lexicon returned
      std::set<const void*> constants;
      std::string printed;
      std::unique_ptr<Interp> keep;            // the Lexicon stays alive until every thread of the round has finished
   };

   void worker(int t, unsigned long seed, int len, std::atomic<int>& gate, int nthreads, Work& out)
   {
      Rng rng { seed * 7919 + static_cast<unsigned long>(t) };
      ++gate;
      while (gate.load() < nthreads) std::this_thread::yield();        // start together
      out.keep = std::make_unique<Interp>();
      Interp& in = *out.keep;
      auto init = init_event(in);
      out.lines.push_back(vj::dump(init));
      std::vector<Value> past;
      std::ostringstream os;
      ipr::Printer pp { in.w.lex, os };
      pp.print_locations = true;                 // every declaration carries a location of this thread's own (file = thread)
      for (int k = 0; k < len; ++k) {
         Value req;
         if (not past.empty() and rng.coin(35)) req = past[static_cast<std::size_t>(rng.below(static_cast<int>(past.size())))];
         else {
            bool ok = false;
            for (int tries = 0; tries < 20 and not ok; ++tries)
               ok = random_request(in, rng, all_ops[static_cast<std::size_t>(rng.below(static_cast<int>(all_ops.size())))], req);
            if (not ok) continue;
            past.push_back(req);
         }
         auto ev = in.exec(req);
         out.lines.push_back(vj::dump(ev));
         // declarations, lookups and printing on this thread's own graph
         if (k % 5 == 0) {
            auto& id = in.w.lex.get_identifier(vh::u8("t" + std::to_string(rng.below(6))));
            auto v = in.w.unit.global_scope()->make_var(id, in.w.lex.get_pointer(in.w.lex.int_type()));
            // declaration specifiers, different per thread and step, and their decomposition
            {
               const ipr::Lexicon& il = in.w.lex;
               const ipr::Specifiers menu[] { il.static_specifier(), il.extern_specifier(), il.inline_specifier(), il.constexpr_specifier(),
                                              il.virtual_specifier(), il.thread_local_specifier(), il.mutable_specifier(), il.friend_specifier() };
               ipr::Specifiers sp { };
               for (int b = 0; b < 8; ++b) if (rng.coin(30)) sp |= menu[b];
               v->specifiers(sp);
               os << '{';
               for (auto& bs : il.decompose(sp)) os << vh::word(bs.logogram().what().characters()) << ' ';
               for (auto& bq : il.decompose(in.w.quals(1 + rng.below(7)))) os << vh::word(bq.logogram().what().characters()) << ' ';
               os << '}';
            }
            (void)(*static_cast<const ipr::Scope*>(in.w.unit.global_scope()))[id];
            // an initializer whose spelling needs escapes and belongs to this thread alone
            v->init = in.w.lex.make_literal(in.w.lex.int_type(), vh::u8("thread" + std::to_string(t) + "\n\tstep" + std::to_string(k) + "\\\1"));
            v->src_locus.file = ipr::File_index{static_cast<std::uint32_t>(1 + t)};
            v->src_locus.line = ipr::Line_number{static_cast<std::uint32_t>(1000 * (1 + t) + k)};
            v->src_locus.column = ipr::Column_number{static_cast<std::uint32_t>(1 + t)};
            try { pp << ipr::xpr_decl(*v, true); } catch (const std::logic_error&) { }
         }
         if (rng.coin(20)) std::this_thread::yield();
      }
      try { pp << static_cast<const ipr::Translation_unit&>(in.w.unit); } catch (const std::logic_error&) { }
      // short-lived Lexicons of this thread's own that outgrow their first string pool and die while other threads do the same:
      // whatever the allocator keeps between Lexicons must not be shared
      for (int round = 0; round < 3; ++round) {
         impl::Lexicon mine;
         std::string big(700000, static_cast<char>('a' + t % 26));
         auto& s1 = mine.get_string(vh::u8(big));
         big[10] = '#';
         auto& s2 = mine.get_string(vh::u8(big));
         auto word = "after-rollover-" + std::to_string(t) + "-" + std::to_string(round);
         auto& s3 = mine.get_string(vh::u8(word));
         bool ok = s1.size() == 700000 and s2.size() == 700000 and *s1.begin() == static_cast<char8_t>('a' + t % 26)
            and *(s2.begin() + 10) == u8'#' and vh::word(s3.characters()) == word and &mine.get_string(vh::u8(word)) == &s3;
         os << (ok ? "[pool ok]" : "[POOL CORRUPTED]");
         if (rng.coin(50)) std::this_thread::yield();
      }
      out.printed = os.str();
      // reserved words (and the empty word) are process-wide constants too, whatever route returned them
      static const std::set<std::string> reserved { "", "...", "=0", "C", "C++", "auto", "bool", "char", "char16_t", "char32_t",
         "char8_t", "class", "const", "consteval", "constexpr", "constinit", "default", "delete", "double", "enum", "explicit",
         "export", "extern", "false", "float", "friend", "inline", "int", "long", "long double", "long long", "mutable",
         "namespace", "nullptr", "private", "protected", "public", "register", "restrict", "short", "signed char", "static",
         "this", "thread_local", "true", "typedef", "typename", "union", "unsigned char", "unsigned int", "unsigned long",
         "unsigned long long", "unsigned short", "virtual", "void", "volatile", "wchar_t" };
      for (int id = 1; id < in.w.next_id(); ++id) {
         bool constant = id <= vh::World::NConst - 1;
         if (not constant) {
            auto o = in.w.obs(id);
            auto c = o.at("c").as_str();
            constant = (c == "Identifier" or c == "Logogram" or c == "String") and reserved.count(o.at("w").as_str());
         }
         (constant ? out.constants : out.addresses).insert(in.w.ent(id).raw);
      }
      out.lines.push_back("{\"op\":\"reset\",\"a\":[],\"q\":0,\"w\":\"\",\"out\":\"ok\",\"r\":0,\"o\":" + vj::dump(Interp::no_obs()) + "}");
   }

   int do_record(int argc, char** argv)
   {
      unsigned long seed = 1;
      int nthreads = 4, len = 120, rounds = 2;
      for (int k = 2; k + 1 < argc; k += 2) {
         std::string f = argv[k], v = argv[k + 1];
         if (f == "--seed") seed = std::stoul(v);
         else if (f == "--threads") nthreads = std::stoi(v);
         else if (f == "--len") len = std::stoi(v);
         else if (f == "--rounds") rounds = std::stoi(v);
      }
      for (int round = 0; round < rounds; ++round) {
         std::vector<Work> work(static_cast<std::size_t>(nthreads));
         std::atomic<int> gate { 0 };
         std::vector<std::thread> ts;
         for (int t = 0; t < nthreads; ++t)
            ts.emplace_back(worker, t, seed + static_cast<unsigned long>(round) * 1000, len, std::ref(gate), nthreads, std::ref(work[static_cast<std::size_t>(t)]));
         for (auto& t : ts) t.join();
         // what each thread printed must be what the same program prints when it runs alone
         long prints_differ = 0;
         for (int t = 0; t < nthreads; ++t) {
            Work alone;
            std::atomic<int> g1 { 0 };
            worker(t, seed + static_cast<unsigned long>(round) * 1000, len, g1, 1, alone);
            if (alone.printed != work[static_cast<std::size_t>(t)].printed or alone.lines != work[static_cast<std::size_t>(t)].lines) ++prints_differ;
         }
         long shared = 0, const_mismatch = 0;
         for (std::size_t a = 0; a < work.size(); ++a) {
            for (auto& l : work[a].lines) std::cout << l << "\n";
            // the constants every Lexicon hands out are the same nodes (compare what both have seen)
            for (int id = 1; id <= vh::World::NConst - 1; ++id)
               if (work[a].keep->w.ent(id).raw != work[0].keep->w.ent(id).raw) ++const_mismatch;
            for (std::size_t b = a + 1; b < work.size(); ++b)
               for (auto p : work[a].addresses) if (work[b].addresses.count(p)) ++shared;
         }
         // destroy the Lexicons concurrently as well
         {
            std::vector<std::thread> killers;
            for (auto& wk : work) killers.emplace_back([&wk] { wk.keep.reset(); });
            for (auto& k : killers) k.join();
         }
         // Lexicons alive at the same time share nothing but the constants (all are kept alive until the join).
         auto ev = Value::object();
         ev.set("op", "isolation").set("a", Value::array()).set("q", 0).set("w", "").set("out", "ok").set("r", 0).set("o", Interp::no_obs())
            .set("threads", nthreads).set("differs_from_running_alone", prints_differ).set("constants_differ", const_mismatch).set("shared_nonconstant", shared);
         std::cout << vj::dump(ev) << "\n";
      }
      return 0;
   }
}

int main(int argc, char** argv)
{
   std::string mode = argc > 1 ? argv[1] : "";
   try {
      if (mode == "record") return do_record(argc, argv);
   }
   catch (const std::logic_error& e) {
      // the library throws logic errors, the harness run-time errors: one that arrives here escaped from a call of the library
      // where the harness expected none -- recorded like a crash (a terminal event), not as a failure of the harness
      std::cout.flush();
      std::cerr << "exception of the library escaped: " << e.what() << "\n";
      std::abort();
   }
   catch (const std::exception& e) {
      std::cout << "HARNESS-ERROR " << e.what() << "\n";
      return 2;
   }
   return 2;
}
