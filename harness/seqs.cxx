// Harness for spec/IprSeq*.tla (properties C14, C15): every implementation of ipr::Sequence the library ships, driven
// through the public interface only (size, empty, begin, end, position, the helpers of Product/Sum/Expr_list/Scope/
// Parameter_list), plus the derived convenience operations, the equality operators and Optional.
//   seqs replay       stdin: TLC behaviours (push ... push with the expected observation after each) -- replayed on
//                     every growable implementation; fixed-size implementations are compared at their size
//   seqs record       stdout: ndjson trace over all implementations + derived operations + equalities + optionals
#include <algorithm>
#include <cstdio>
#include <cstdlib>
#include <functional>
#include <iostream>
#include <limits>
#include <memory>
#include <set>
#include <unistd.h>
#include "world.hpp"

using vj::Value;
namespace impl = ipr::impl;

namespace {
   // One sequence under test behind a uniform face.  Elements are identified by address; `ident` maps the
   // address of what was appended k-th to k.
   struct Subject {
      std::string kind;
      bool growable = true;
      std::function<const void*()> push;                    // appends one element, returns its identity
      std::function<std::size_t()> size;
      std::function<bool()> empty;
      std::function<const void*(std::size_t)> at;           // *position(i)
      std::function<std::vector<const void*>()> iter;       // begin() .. end()
      std::function<long()> steps;                          // ++ from begin() until == end()
      std::function<std::vector<const void*>()> riter;      // --end() .. begin(), through operator->
      std::function<std::vector<const void*>()> post;       // it++ from begin()
      std::function<std::vector<const void*>()> rpost;      // the value of it-- from the last position down to begin()
      std::function<std::vector<const void*>()> fwalk, rwalk; // one iterator object: read through it, step it with it++; / it--; , read again
      std::function<std::vector<bool>()> eqd, eqo, bend;    // iterator equality: same position, neighbouring positions, begin/end
      // spec/IprIter.tla: one iterator object starting at begin() is put through the operations named; the answer of each
      std::function<std::vector<const void*>(const std::vector<std::string>&, std::vector<long>&)> run_iter;
      std::function<std::size_t()> hsize;                   // helper size (or size)
      std::function<const void*(std::size_t)> hat;          // helper operator[] (or at)
      std::map<const void*, int> ident;
      std::shared_ptr<void> keep;                           // owns the world the sequence lives in
   };

   template<class T> void bind(Subject& sj, const ipr::Sequence<T>* seq, std::function<const void*(const T&)> key)
   {
      sj.size = [seq] { return static_cast<std::size_t>(seq->size()); };
      sj.empty = [seq] { return seq->empty(); };
      sj.at = [seq, key](std::size_t i) { return key(*seq->position(i)); };
      sj.iter = [seq, key] {
         std::vector<const void*> v;
         for (auto it = seq->begin(); it != seq->end(); ++it) { v.push_back(key(*it)); if (v.size() > 10000) break; }
         return v;
      };
      sj.steps = [seq] {
         long n = 0;
         for (auto it = seq->begin(); it != seq->end() and n < 10000; ++it) ++n;
         return n;
      };
      sj.riter = [seq, key] {
         std::vector<const void*> v;
         auto it = seq->end();
         while (it != seq->begin() and v.size() < 10000) { --it; v.push_back(key(*it.operator->())); }
         return v;
      };
      sj.post = [seq, key] {
         std::vector<const void*> v;
         for (auto it = seq->begin(); it != seq->end() and v.size() < 10000; ) { auto old = it++; v.push_back(key(*old)); }
         return v;
      };
      sj.rpost = [seq, key] {
         std::vector<const void*> v;
         if (seq->size() == 0) return v;
         auto it = seq->position(seq->size() - 1);
         while (v.size() < 10000) {
            if (it == seq->begin()) { v.push_back(key(*it)); break; }
            auto old = it--;
            v.push_back(key(*old));
         }
         return v;
      };
      sj.fwalk = [seq, key] {
         std::vector<const void*> v;
         for (auto it = seq->begin(); it != seq->end() and v.size() < 10000; ) { v.push_back(key(*it)); it++; }
         return v;
      };
      sj.rwalk = [seq, key] {
         std::vector<const void*> v;
         if (seq->size() == 0) return v;
         auto it = seq->position(seq->size() - 1);
         while (v.size() < 10000) {
            v.push_back(key(*it));
            if (it == seq->begin()) break;
            it--;
         }
         return v;
      };
      sj.eqd = [seq] {
         std::vector<bool> v;
         for (std::size_t i = 0; i <= seq->size(); ++i) v.push_back(seq->position(i) == seq->position(i) and not (seq->position(i) != seq->position(i)));
         return v;
      };
      sj.eqo = [seq] {
         std::vector<bool> v;
         for (std::size_t i = 0; i < seq->size(); ++i) v.push_back(seq->position(i) == seq->position(i + 1) or not (seq->position(i + 1) != seq->position(i)));
         return v;
      };
      sj.bend = [seq] {
         return std::vector<bool>{ seq->begin() == seq->position(0), seq->end() == seq->position(seq->size()), seq->begin() == seq->end() };
      };
      sj.run_iter = [seq, key](const std::vector<std::string>& ops, std::vector<long>& flags) {
         // answers that are elements come back as identities (nullptr = refused), the others in `flags` (-7 = not a flag)
         std::vector<const void*> out;
         auto it = seq->begin();
         for (auto& op : ops) {
            const void* r = nullptr;
            long f = -7;
            try {
               if (op == "deref") r = key(*it);
               else if (op == "arrow") r = key(*it.operator->());
               else if (op == "copy") { auto c = it; r = key(*c); }
               else if (op == "inc") r = key(*++it);
               else if (op == "dec") r = key(*--it);
               else if (op == "pinc") { auto old = it++; r = key(*old); }
               else if (op == "pdec") { auto old = it--; r = key(*old); }
               else if (op == "incs") { it++; f = 0; }
               else if (op == "decs") { it--; f = 0; }
               else if (op == "eqb") f = (it == seq->begin() and not (it != seq->begin())) ? 1 : (it != seq->begin() and not (it == seq->begin())) ? 0 : -8;
               else if (op == "eqe") f = (it == seq->end() and not (it != seq->end())) ? 1 : (it != seq->end() and not (it == seq->end())) ? 0 : -8;
               else throw vh::HarnessError("unknown iterator operation " + op);
            }
            catch (const std::logic_error&) { r = nullptr; f = -7; }
            out.push_back(r);
            flags.push_back(f);
         }
         return out;
      };
      sj.hsize = sj.size;
      sj.hat = sj.at;
   }
   template<class T> const void* self(const T& t) { return static_cast<const void*>(&t); }

   struct Stage {
      impl::Lexicon lex;
      impl::Translation_unit unit { lex };
      int counter = 0;
      const ipr::Name& name() { return lex.get_identifier(vh::u8("s" + std::to_string(++counter))); }
      // a type different from every type handed out before: int, int*, int**, ...
      const ipr::Type* last_type = nullptr;
      const ipr::Type& type() { last_type = last_type ? &static_cast<const ipr::Type&>(lex.get_pointer(*last_type)) : &lex.int_type(); return *last_type; }
   };

   std::vector<std::string> kinds()
   {
      return { "ref_sequence:Expr_list.elements", "typed_sequence:Expr_list.type", "decl_sequence:Scope.elements",
               "typed_sequence:Scope.type", "ref_sequence:Region.body", "obj_sequence:Enum.members",
               "homogeneous_scope<Enumerator>:Scope.elements", "homogeneous_scope<Enumerator>:Region.body",
               "obj_list:Parameter_list.elements", "homogeneous_scope<Parameter>:Scope.elements", "typed_sequence:Parameter_list.type",
               "obj_list:Class.bases", "typed_sequence:bases-scope.type", "obj_list:Block.handlers", "obj_list:Using_declaration.designators",
               "ref_sequence:Structured_binding.names", "ref_sequence:Decl.decl_set", "ref_sequence:Stmt.attributes",
               "fixed:Warehouse-product", "fixed:Warehouse-sum", "fixed:product-of-elements", "fixed:empty_sequence:handler-body.handlers",
               "fixed:singleton_obj:single-using.designators", "fixed:singleton_ref:Parameter.decl_set", "fixed:singleton_obj:eh-scope.elements" };
   }

   // Build the subject of the given kind; for fixed kinds `n` is the size wanted (nullptr if that size is impossible).
   std::unique_ptr<Subject> make_subject(const std::string& kind, std::size_t n)
   {
      auto st = std::make_shared<Stage>();
      auto sj = std::make_unique<Subject>();
      sj->kind = kind;
      sj->keep = st;
      auto& lx = st->lex;
      auto stp = st.get();
      if (kind == "ref_sequence:Expr_list.elements" or kind == "typed_sequence:Expr_list.type") {
         auto el = lx.make_expr_list();
         bool typed = kind[0] == 't';
         sj->push = [el, stp, typed]() -> const void* {
            auto& t = stp->type();
            auto e = stp->lex.make_phantom(t);
            el->push_back(e);
            return typed ? self(t) : self(*static_cast<const ipr::Expr*>(e));
         };
         const ipr::Expr_list& iel = *el;
         if (typed) {
            auto p = dynamic_cast<const ipr::Product*>(&iel.type());
            bind<ipr::Type>(*sj, &p->elements(), [](const ipr::Type& t) { return self(t); });
            sj->hsize = [p] { return static_cast<std::size_t>(p->size()); };
            sj->hat = [p](std::size_t i) { return self((*p)[i]); };
         }
         else {
            bind<ipr::Expr>(*sj, &iel.elements(), [](const ipr::Expr& t) { return self(t); });
            sj->hsize = [el] { return static_cast<std::size_t>(static_cast<const ipr::Expr_list*>(el)->size()); };
         }
      }
      else if (kind == "decl_sequence:Scope.elements" or kind == "typed_sequence:Scope.type") {
         auto sc = st->unit.global_scope();
         bool typed = kind[0] == 't';
         sj->push = [sc, stp, typed]() -> const void* {
            auto& t = stp->type();
            auto d = sc->make_var(stp->name(), t);
            return typed ? self(t) : self(*static_cast<const ipr::Decl*>(d));
         };
         const ipr::Scope& isc = *sc;
         if (typed) {
            auto p = dynamic_cast<const ipr::Product*>(&isc.type());
            bind<ipr::Type>(*sj, &p->elements(), [](const ipr::Type& t) { return self(t); });
            sj->hsize = [p] { return static_cast<std::size_t>(p->size()); };
            sj->hat = [p](std::size_t i) { return self((*p)[i]); };
         }
         else {
            bind<ipr::Decl>(*sj, &isc.elements(), [](const ipr::Decl& t) { return self(t); });
            auto p = &isc;
            sj->hsize = [p] { return static_cast<std::size_t>(p->size()); };
            sj->iter = [p] { std::vector<const void*> v; for (auto it = p->begin(); it != p->end(); ++it) v.push_back(self(*it)); return v; };
         }
      }
      else if (kind == "ref_sequence:Region.body") {
         auto b = lx.make_block(*st->unit.global_region());
         sj->push = [b, stp]() -> const void* { auto e = stp->lex.make_phantom(); b->add_stmt(*e); return self(*static_cast<const ipr::Expr*>(e)); };
         const ipr::Block& ib = *b;
         bind<ipr::Expr>(*sj, &ib.region().body(), [](const ipr::Expr& t) { return self(t); });
         // Block::body() is the same sequence
         auto p = &ib.body();
         sj->hsize = [p] { return static_cast<std::size_t>(p->size()); };
         sj->hat = [p](std::size_t i) { return self(*p->position(i)); };
      }
      else if (kind == "obj_sequence:Enum.members" or kind == "homogeneous_scope<Enumerator>:Scope.elements"
               or kind == "homogeneous_scope<Enumerator>:Region.body") {
         auto en = lx.make_enum(*st->unit.global_region(), ipr::Enum::Kind::Scoped);
         const ipr::Enum& ie = *en;
         if (kind[0] == 'o') {
            sj->push = [en, stp]() -> const void* { return self(*static_cast<const ipr::Enumerator*>(en->add_member(stp->name()))); };
            bind<ipr::Enumerator>(*sj, &ie.members(), [](const ipr::Enumerator& t) { return self(t); });
         }
         else if (kind.find("Scope.elements") != std::string::npos) {
            sj->push = [en, stp]() -> const void* { return self(*static_cast<const ipr::Decl*>(en->add_member(stp->name()))); };
            bind<ipr::Decl>(*sj, &ie.region().bindings().elements(), [](const ipr::Decl& t) { return self(t); });
            auto p = &ie.region().bindings();
            sj->hsize = [p] { return static_cast<std::size_t>(p->size()); };
         }
         else {
            sj->push = [en, stp]() -> const void* { return self(*static_cast<const ipr::Expr*>(en->add_member(stp->name()))); };
            bind<ipr::Expr>(*sj, &ie.region().body(), [](const ipr::Expr& t) { return self(t); });
         }
      }
      else if (kind == "obj_list:Parameter_list.elements" or kind == "homogeneous_scope<Parameter>:Scope.elements"
               or kind == "typed_sequence:Parameter_list.type") {
         auto m = lx.make_mapping(*st->unit.global_region(), ipr::Mapping_level{0});
         const ipr::Parameter_list& pl = m->parameters();
         if (kind[0] == 'o') {
            sj->push = [m, stp]() -> const void* { return self(*static_cast<const ipr::Parameter*>(m->param(stp->name(), stp->type()))); };
            bind<ipr::Parameter>(*sj, &pl.elements(), [](const ipr::Parameter& t) { return self(t); });
            auto p = &pl;
            sj->hsize = [p] { return static_cast<std::size_t>(p->size()); };
            sj->iter = [p] { std::vector<const void*> v; for (auto it = p->begin(); it != p->end(); ++it) v.push_back(self(*it)); return v; };
         }
         else if (kind[0] == 'h') {
            sj->push = [m, stp]() -> const void* { return self(*static_cast<const ipr::Decl*>(m->param(stp->name(), stp->type()))); };
            bind<ipr::Decl>(*sj, &pl.region().bindings().elements(), [](const ipr::Decl& t) { return self(t); });
         }
         else {
            sj->push = [m, stp]() -> const void* { auto& t = stp->type(); m->param(stp->name(), t); return self(t); };
            auto p = &pl.type();
            bind<ipr::Type>(*sj, &p->elements(), [](const ipr::Type& t) { return self(t); });
            sj->hsize = [p] { return static_cast<std::size_t>(p->size()); };
            sj->hat = [p](std::size_t i) { return self((*p)[i]); };
         }
      }
      else if (kind == "obj_list:Class.bases" or kind == "typed_sequence:bases-scope.type") {
         auto c = lx.make_class(*st->unit.global_region());
         const ipr::Class& ic = *c;
         if (kind[0] == 'o') {
            sj->push = [c, stp]() -> const void* { return self(*static_cast<const ipr::Base_type*>(c->declare_base(stp->type()))); };
            bind<ipr::Base_type>(*sj, &ic.bases(), [](const ipr::Base_type& t) { return self(t); });
         }
         else {
            sj->push = [c, stp]() -> const void* { auto& t = stp->type(); c->declare_base(t); return self(t); };
            auto p = dynamic_cast<const ipr::Product*>(&c->base_subobjects.bindings().type());
            bind<ipr::Type>(*sj, &p->elements(), [](const ipr::Type& t) { return self(t); });
         }
      }
      else if (kind == "obj_list:Block.handlers") {
         auto b = lx.make_block(*st->unit.global_region()->make_subregion());
         sj->push = [b, stp]() -> const void* { return self(*static_cast<const ipr::Handler*>(b->new_handler(stp->name(), stp->type()))); };
         bind<ipr::Handler>(*sj, &static_cast<const ipr::Block*>(b)->handlers(), [](const ipr::Handler& t) { return self(t); });
      }
      else if (kind == "obj_list:Using_declaration.designators") {
         auto u = lx.make_using_declaration();
         using D = ipr::Using_declaration::Designator;
         sj->push = [u, stp]() -> const void* {
            auto sr = stp->lex.make_scope_ref(*stp->lex.make_phantom(), *stp->lex.make_phantom());
            return self(*u->seq.push_back(*sr, D::Mode::Normal));
         };
         bind<D>(*sj, &static_cast<const ipr::Using_declaration*>(u)->designators(), [](const D& t) { return self(t); });
      }
      else if (kind == "ref_sequence:Structured_binding.names") {
         auto sb = lx.make_structured_binding();
         sj->push = [sb, stp]() -> const void* { auto& n = stp->lex.get_identifier(vh::u8("sb" + std::to_string(++stp->counter))); sb->ids.push_back(&n); return self(n); };
         bind<ipr::Identifier>(*sj, &static_cast<const ipr::Structured_binding*>(sb)->names(), [](const ipr::Identifier& t) { return self(t); });
      }
      else if (kind == "ref_sequence:Decl.decl_set") {
         auto sc = st->unit.global_scope();
         auto& nm = st->name();
         auto first = sc->make_var(nm, lx.int_type());
         // the first declaration is already in its own decl-set: that is element 1
         sj->ident[self(*static_cast<const ipr::Decl*>(first))] = 1;
         sj->push = [sc, &nm, stp]() -> const void* { return self(*static_cast<const ipr::Decl*>(sc->make_var(nm, stp->lex.int_type()))); };
         bind<ipr::Decl>(*sj, &static_cast<const ipr::Var*>(first)->decl_set(), [](const ipr::Decl& t) { return self(t); });
         sj->growable = true;
         sj->kind = kind;
         sj->keep = st;
         // starts at size 1: replay skips the empty state for it (see do_replay)
      }
      else if (kind == "ref_sequence:Stmt.attributes") {
         auto stmt = lx.make_break();
         auto fac = std::make_shared<impl::attr_factory>();
         auto toks = std::make_shared<std::deque<impl::Token>>();
         sj->push = [stmt, fac, toks, stp]() -> const void* {
            toks->emplace_back(stp->lex.get_string(u8"t"), ipr::Source_location{}, ipr::TokenValue{}, ipr::TokenCategory{});
            auto& a = fac->make_basic_attribute(toks->back());
            stmt->attrs.push_back(&a);
            return self(static_cast<const ipr::Attribute&>(a));
         };
         bind<ipr::Attribute>(*sj, &static_cast<const ipr::Break*>(stmt)->attributes(), [](const ipr::Attribute& t) { return self(t); });
      }
      else if (kind == "fixed:Warehouse-product" or kind == "fixed:Warehouse-sum" or kind == "fixed:product-of-elements") {
         sj->growable = false;
         impl::Warehouse<ipr::Type> wh;
         std::vector<const ipr::Type*> ts;
         for (std::size_t k = 0; k < n; ++k) { ts.push_back(&st->type()); wh.push_back(*ts.back()); }
         for (std::size_t k = 0; k < n; ++k) sj->ident[self(*ts[k])] = static_cast<int>(k) + 1;
         if (kind == "fixed:Warehouse-sum") {
            auto p = &lx.get_sum(wh);
            bind<ipr::Type>(*sj, &p->elements(), [](const ipr::Type& t) { return self(t); });
            sj->hsize = [p] { return static_cast<std::size_t>(p->size()); };
            sj->hat = [p](std::size_t i) { return self((*p)[i]); };
         }
         else {
            auto p = &lx.get_product(wh);
            if (kind == "fixed:product-of-elements") p = &lx.get_product(lx.get_sum(wh).elements());
            bind<ipr::Type>(*sj, &p->elements(), [](const ipr::Type& t) { return self(t); });
            sj->hsize = [p] { return static_cast<std::size_t>(p->size()); };
            sj->hat = [p](std::size_t i) { return self((*p)[i]); };
         }
      }
      else if (kind == "fixed:empty_sequence:handler-body.handlers") {
         if (n != 0) return nullptr;
         sj->growable = false;
         auto b = lx.make_block(*st->unit.global_region()->make_subregion());
         auto h = b->new_handler(st->name(), lx.int_type());
         bind<ipr::Handler>(*sj, &static_cast<const ipr::Handler*>(h)->body().handlers(), [](const ipr::Handler& t) { return self(t); });
      }
      else if (kind == "fixed:singleton_obj:single-using.designators") {
         if (n != 1) return nullptr;
         sj->growable = false;
         using D = ipr::Using_declaration::Designator;
         auto sr = lx.make_scope_ref(*lx.make_phantom(), *lx.make_phantom());
         auto u = lx.make_using_declaration(*sr, D::Mode::Type);
         auto seq = &static_cast<const ipr::Using_declaration*>(u)->designators();
         bind<D>(*sj, seq, [](const D& t) { return self(t); });
         sj->ident[self(*seq->position(0))] = 1;
      }
      else if (kind == "fixed:singleton_ref:Parameter.decl_set") {
         if (n != 1) return nullptr;
         sj->growable = false;
         auto m = lx.make_mapping(*st->unit.global_region(), ipr::Mapping_level{0});
         auto p = m->param(st->name(), lx.int_type());
         bind<ipr::Decl>(*sj, &static_cast<const ipr::Parameter*>(p)->decl_set(), [](const ipr::Decl& t) { return self(t); });
         sj->ident[self(*static_cast<const ipr::Decl*>(p))] = 1;
      }
      else if (kind == "fixed:singleton_obj:eh-scope.elements") {
         if (n != 1) return nullptr;
         sj->growable = false;
         auto b = lx.make_block(*st->unit.global_region()->make_subregion());
         auto h = b->new_handler(st->name(), lx.int_type());
         const ipr::Handler& ih = *h;
         bind<ipr::Decl>(*sj, &ih.body().region().enclosing().bindings().elements(), [](const ipr::Decl& t) { return self(t); });
         sj->ident[self(static_cast<const ipr::Decl&>(ih.exception()))] = 1;
      }
      else
         throw vh::HarnessError("unknown sequence kind " + kind);
      return sj;
   }

   long id_of(Subject& sj, const void* p)
   {
      auto it = sj.ident.find(p);
      return it == sj.ident.end() ? -9 : it->second;
   }
   template<class F> long guarded(Subject& sj, F f)
   {
      try { return id_of(sj, f()); }
      catch (const std::logic_error&) { return -1; }
      catch (...) { return -8; }
   }

   Value observe(Subject& sj)
   {
      auto o = Value::object();
      std::size_t n = sj.size();
      // the newest element first (the previous observation ended with refused positions), then the positions in descending order
      o.set("first", n == 0 ? guarded(sj, [&] { return sj.at(0); }) : guarded(sj, [&] { return sj.at(n - 1); }));
      auto atrev = Value::array();
      for (std::size_t i = n + 3; i-- > 0; ) atrev.push(guarded(sj, [&] { return sj.at(i); }));
      o.set("atrev", atrev);
      o.set("size", static_cast<long>(n)).set("empty", sj.empty());
      auto at = Value::array(), hat = Value::array(), it = Value::array();
      for (std::size_t i = 0; i < n + 3; ++i) {
         at.push(guarded(sj, [&] { return sj.at(i); }));
         hat.push(guarded(sj, [&] { return sj.hat(i); }));
      }
      o.set("at", at).set("atmax", guarded(sj, [&] { return sj.at(std::numeric_limits<std::size_t>::max()); }));
      // positions far beyond size() that a narrowed or wrapped index would map into the bounds (sizes stay below 2^8)
      auto huge = Value::array();
      for (int k : {8, 16, 31, 32, 33, 48, 63})
         for (std::size_t j : {std::size_t{0}, n == 0 ? std::size_t{1} : n - 1})
            huge.push(guarded(sj, [&] { return sj.at((std::size_t{1} << k) + j); }));
      huge.push(guarded(sj, [&] { return sj.at(std::numeric_limits<std::size_t>::max() - 1); }));
      huge.push(guarded(sj, [&] { return sj.at((std::size_t{1} << 63) - 1); }));
      o.set("huge", huge);
      try { for (auto p : sj.iter()) it.push(id_of(sj, p)); } catch (const std::logic_error&) { it.push(-1); }
      auto rit = Value::array(), pit = Value::array();
      try { for (auto p : sj.riter()) rit.push(id_of(sj, p)); } catch (const std::logic_error&) { rit.push(-1); }
      try { for (auto p : sj.post()) pit.push(id_of(sj, p)); } catch (const std::logic_error&) { pit.push(-1); }
      o.set("riter", rit).set("post", pit);
      auto rpit = Value::array();
      try { for (auto p : sj.rpost()) rpit.push(id_of(sj, p)); } catch (const std::logic_error&) { rpit.push(-1); }
      o.set("rpost", rpit);
      auto fw = Value::array(), rw = Value::array();
      try { for (auto p : sj.fwalk()) fw.push(id_of(sj, p)); } catch (const std::logic_error&) { fw.push(-1); }
      try { for (auto p : sj.rwalk()) rw.push(id_of(sj, p)); } catch (const std::logic_error&) { rw.push(-1); }
      o.set("fwalk", fw).set("rwalk", rw);
      auto bools = [](const std::vector<bool>& v) { auto a = Value::array(); for (bool b : v) a.push(b); return a; };
      o.set("eqd", bools(sj.eqd())).set("eqo", bools(sj.eqo())).set("bend", bools(sj.bend()));
      o.set("iter", it).set("steps", sj.steps()).set("hsize", static_cast<long>(sj.hsize())).set("hat", hat);
      return o;
   }

   std::string tlc_unescape(const std::string& line)
   {
      auto b = line.find("\", \"");
      auto e = line.rfind("\">>");
      if (b == std::string::npos or e == std::string::npos) return { };
      std::string out;
      for (std::size_t k = b + 4; k < e; ++k) {
         if (line[k] == '\\' and k + 1 < e) { out += line[k + 1]; ++k; }
         else out += line[k];
      }
      return out;
   }

   std::string first_difference(const Value& e, const Value& g)
   {
      for (auto f : {"first", "atrev", "size", "empty", "at", "atmax", "huge", "iter", "riter", "post", "rpost", "fwalk", "rwalk", "eqd", "eqo", "bend", "steps", "hsize", "hat"})
         if (not vj::equal(e.at(f), g.at(f))) return f;
      return "other";
   }

   int do_replay()
   {
      std::string line;
      long behaviours = 0, steps = 0, failed = 0, printed = 0;
      std::set<std::string> classes;
      std::map<std::string, long> fail_keys;
      std::string sample;
      while (std::getline(std::cin, line)) {
         std::string text = line.rfind("<<\"BEH\"", 0) == 0 ? tlc_unescape(line) : line;
         if (text.empty() or text[0] != '[') continue;
         Value beh = vj::parse(text);
         if (sample.empty() or beh.size() == 3) sample = text;
         std::size_t final_len = beh.size() - 1;
         for (auto& kind : kinds()) {
            auto sj = make_subject(kind, final_len);
            if (sj == nullptr) continue;
            ++behaviours;
            auto check = [&](const Value& want, std::size_t len) -> bool {
               ++steps;
               classes.insert(kind + ":" + std::to_string(len));
               Value got = observe(*sj);
               if (vj::equal(got, want)) return true;
               ++failed;
               auto key = kind + ":" + first_difference(want, got);
               ++fail_keys[key];
               if (printed++ < 30) {
                  auto f = Value::object();
                  f.set("key", key).set("kind", kind).set("len", static_cast<long>(len)).set("expected", want).set("got", got);
                  std::cout << "FAIL " << vj::dump(f) << "\n";
               }
               return false;
            };
            if (not sj->growable) { check(beh.at(final_len).at("o"), final_len); continue; }
            std::size_t have = sj->ident.size();          // decl_set starts with one element
            if (have == 0 and not check(beh.at(0).at("o"), 0)) continue;
            bool ok = true;
            for (std::size_t k = have + 1; k <= final_len and ok; ++k) {
               auto p = sj->push();
               sj->ident[p] = static_cast<int>(k);
               ok = check(beh.at(k).at("o"), k);
            }
         }
      }
      auto s = Value::object();
      auto fk = Value::object();
      for (auto& kv : fail_keys) fk.set(kv.first, kv.second);
      s.set("behaviours", behaviours).set("steps", steps).set("failed", failed).set("fail_keys", fk)
         .set("classes", static_cast<long>(classes.size())).set("sample", sample);
      std::cout << "SUMMARY " << vj::dump(s) << "\n";
      return 0;
   }

   // ---------------------------------------------------------------------------------------------
   template<class T> void equality_event(const char* sort, const std::vector<const T*>& vals, const std::vector<std::string>& spell)
   {
      auto ev = Value::object();
      auto sp = Value::array(), eq = Value::array(), ne = Value::array();
      for (auto& s : spell) sp.push(s);
      for (auto a : vals) {
         auto r1 = Value::array(), r2 = Value::array();
         for (auto b : vals) { r1.push(*a == *b); r2.push(*a != *b); }
         eq.push(r1); ne.push(r2);
      }
      ev.set("e", "equality").set("sort", sort).set("spell", sp).set("eq", eq).set("ne", ne);
      std::cout << vj::dump(ev) << "\n";
   }

   template<class T> void optional_event(const char* what, ipr::Optional<T> o)
   {
      auto ev = Value::object();
      std::string get = "ok";
      try { (void)o.get(); }
      catch (const std::logic_error&) { get = "refused"; }
      catch (...) { get = "other-exception"; }
      ev.set("e", "optional").set("what", what).set("valid", o.is_valid()).set("get", get);
      std::cout << vj::dump(ev) << "\n";
   }

   // spec/IprIterMC.tla: every sequence of iterator operations, on a sequence of n elements of every implementation
   int do_replay_iter(std::size_t n)
   {
      std::ios::sync_with_stdio(false);
      std::vector<std::pair<std::string, std::shared_ptr<Subject>>> subjects;
      for (auto& kind : kinds()) {
         auto sj = make_subject(kind, n);
         if (sj == nullptr) continue;
         if (sj->growable) {
            for (std::size_t k = sj->ident.size() + 1; k <= n; ++k) { auto p = sj->push(); sj->ident[p] = static_cast<int>(k); }
         }
         if (sj->size() != n or not sj->run_iter) continue;
         subjects.emplace_back(kind, std::shared_ptr<Subject>(std::move(sj)));
      }
      std::string line;
      long behaviours = 0, steps = 0, failed = 0, printed = 0;
      std::set<std::string> classes;
      std::map<std::string, long> fail_keys;
      std::string sample;
      while (std::getline(std::cin, line)) {
         std::string text = line.rfind("<<\"BEH\"", 0) == 0 ? tlc_unescape(line) : line;
         if (text.empty() or text[0] != '[') continue;
         Value beh = vj::parse(text);
         if (sample.empty()) sample = text;
         std::vector<std::string> ops;
         for (auto& st : *beh.a) ops.push_back(st.at("op").as_str());
         for (auto& [kind, sj] : subjects) {
            ++behaviours;
            std::vector<long> flags;
            auto got = sj->run_iter(ops, flags);
            for (std::size_t k = 0; k < ops.size(); ++k) {
               ++steps;
               classes.insert(kind + ":" + ops[k]);
               long want = beh.at(k).at("r").as_int();
               bool elementwise = ops[k] != "eqb" and ops[k] != "eqe" and ops[k] != "incs" and ops[k] != "decs";
               long have = elementwise ? (got[k] == nullptr ? -1 : id_of(*sj, got[k])) : flags[k];
               if (have == want) continue;
               ++failed;
               auto key = kind + ":" + ops[k];
               ++fail_keys[key];
               if (printed++ < 30) {
                  auto f = Value::object();
                  auto e = Value::object(), g = Value::object();
                  e.set(ops[k], want); g.set(ops[k], have);
                  f.set("key", key).set("kind", kind).set("len", static_cast<long>(n)).set("step", static_cast<long>(k + 1)).set("beh", beh)
                     .set("expected", e).set("got", g);
                  std::cout << "FAIL " << vj::dump(f) << "\n";
               }
               break;
            }
         }
      }
      auto sm = Value::object();
      auto fk = Value::object();
      for (auto& [k, v] : fail_keys) fk.set(k, v);
      sm.set("behaviours", behaviours).set("steps", steps).set("failed", failed).set("fail_keys", fk)
         .set("classes", static_cast<long>(classes.size())).set("sample", sample).set("subjects", static_cast<long>(subjects.size()));
      std::cout << "SUMMARY " << vj::dump(sm) << "\n";
      return 0;
   }

   int do_record()
   {
      // -- sequences of every implementation, sizes 0..5
      for (auto& kind : kinds()) {
         for (std::size_t n : {0u, 1u, 3u, 5u, 17u, 40u}) {
            auto sj = make_subject(kind, n);
            if (sj == nullptr) continue;
            auto nw = Value::object();
            nw.set("e", "new").set("kind", kind);
            std::cout << vj::dump(nw) << "\n";
            if (not sj->growable) {
               auto ev = Value::object();
               ev.set("e", "whole").set("n", static_cast<long>(n)).set("o", observe(*sj));
               std::cout << vj::dump(ev) << "\n";
               continue;
            }
            std::size_t have = sj->ident.size();
            if (have == 0) { auto ev = Value::object(); ev.set("e", "obs").set("o", observe(*sj)); std::cout << vj::dump(ev) << "\n"; }
            else { auto ev = Value::object(); ev.set("e", "whole").set("n", static_cast<long>(have)).set("o", observe(*sj)); std::cout << vj::dump(ev) << "\n"; }
            for (std::size_t k = have + 1; k <= n; ++k) {
               auto p = sj->push();
               sj->ident[p] = static_cast<int>(k);
               auto ev = Value::object();
               ev.set("e", "push").set("r", static_cast<long>(k)).set("o", observe(*sj));
               std::cout << vj::dump(ev) << "\n";
            }
            if (n != 40) continue;
            break;
         }
      }
      // -- derived operations with the primitives they are defined from
      {
         Stage st;
         auto& lx = st.lex;
         auto derived = [](const char* name) { auto ev = Value::object(); ev.set("e", "derived").set("name", name); return ev; };
         for (int handlers : {0, 1, 3}) {
            auto b = lx.make_block(*st.unit.global_region()->make_subregion());
            for (int k = 0; k < handlers; ++k) b->new_handler(st.name(), lx.int_type());
            const ipr::Block& ib = *b;
            auto ev = derived("try_block");
            ev.set("derived", ib.try_block()).set("handlers", static_cast<long>(ib.handlers().size()));
            std::cout << vj::dump(ev) << "\n";
            auto e2 = derived("block_body");
            e2.set("same", &ib.body() == &ib.region().body());
            std::cout << vj::dump(e2) << "\n";
            for (auto& h : ib.handlers()) {
               auto e3 = derived("try_block");
               e3.set("derived", h.body().try_block()).set("handlers", static_cast<long>(h.body().handlers().size()));
               std::cout << vj::dump(e3) << "\n";
            }
         }
         auto udt = [&](auto* u, int members) {
            for (int k = 0; k < members; ++k) u->declare_var(st.name(), lx.int_type());
            using I = std::remove_pointer_t<decltype(u)>;
            const typename I::Interface* dummy = nullptr; (void)dummy;
         };
         (void)udt;
         for (int members : {0, 1, 3}) {
            auto c = lx.make_class(*st.unit.global_region());
            auto un = lx.make_union(*st.unit.global_region());
            auto ns = lx.make_namespace(*st.unit.global_region());
            for (int k = 0; k < members; ++k) { c->declare_var(st.name(), lx.int_type()); un->declare_field(st.name(), lx.int_type()); ns->declare_var(st.name(), lx.int_type()); }
            const ipr::Class& ic = *c; const ipr::Union& iu = *un; const ipr::Namespace& in = *ns;
            for (bool same : { &ic.scope() == &ic.region().bindings(), &iu.scope() == &iu.region().bindings(), &in.scope() == &in.region().bindings() })
               { auto ev = derived("udt_scope"); ev.set("same", same); std::cout << vj::dump(ev) << "\n"; }
            for (bool same : { &ic.members() == &ic.scope().elements(), &iu.members() == &iu.scope().elements(), &in.members() == &in.scope().elements() })
               { auto ev = derived("udt_members"); ev.set("same", same); std::cout << vj::dump(ev) << "\n"; }
            auto ev = derived("scope_size");
            ev.set("derived", static_cast<long>(ic.scope().size())).set("elements", static_cast<long>(ic.scope().elements().size()));
            std::cout << vj::dump(ev) << "\n";
         }
         // template: parameters()/result() against mapping(), for a template declared once or twice, with no definition recorded
         // for the declaration set, or the first, or the last declaration recorded as the definition
         for (int ndecl : {1, 2})
            for (int def : {0, 1, 2}) {
               if (def > ndecl) continue;
               impl::Warehouse<ipr::Type> wh;
               auto& nm = st.name();
               auto& fa = lx.get_forall(lx.get_product(wh), lx.int_type());
               std::vector<impl::Template*> ts;
               for (int k = 0; k < ndecl; ++k) {
                  auto t = st.unit.global_scope()->make_primary_template(nm, fa);
                  auto m = lx.make_mapping(*st.unit.global_region(), ipr::Mapping_level{1});
                  m->param(st.name(), lx.int_type());
                  m->body = lx.make_phantom();
                  t->init = m;
                  ts.push_back(t);
               }
               if (def != 0) ts[0]->decl_data.master_data->def = ts[static_cast<std::size_t>(def == 1 ? 0 : ndecl - 1)];
               for (auto t : ts) {
                  const ipr::Template& it = *t;
                  auto e1 = derived("template_parameters"); e1.set("same", &it.parameters() == &it.mapping().parameters()); std::cout << vj::dump(e1) << "\n";
                  auto e2 = derived("template_result"); e2.set("same", &it.result() == &it.mapping().result()); std::cout << vj::dump(e2) << "\n";
               }
            }
         {  // a where-expression made over a region: its attendant declarations (second()) are the bindings of that region
            auto w = lx.make_where(*st.unit.global_region());
            w->result = lx.make_phantom();
            const ipr::Where& iw = *w;
            for (int round = 0; round < 3; ++round) {
               auto ev = derived("where_attendant");
               ev.set("same", static_cast<const void*>(&iw.second()) == static_cast<const void*>(&w->region.bindings())
                              and static_cast<const void*>(&iw.attendant()) == static_cast<const void*>(&iw.second()));
               std::cout << vj::dump(ev) << "\n";
               w->region.declare_var(st.name(), lx.int_type());
            }
         }
         {  // parameter: default_value() is initializer(), absent and present
            auto m = lx.make_mapping(*st.unit.global_region(), ipr::Mapping_level{0});
            auto p = m->param(st.name(), lx.int_type());
            const ipr::Parameter& ip = *p;
            for (int round = 0; round < 2; ++round) {
               auto ev = derived("default_value");
               auto d = ip.default_value(); auto i = ip.initializer();
               ev.set("derived", d.is_valid() ? static_cast<long>(reinterpret_cast<std::uintptr_t>(&d.get()) % 1000003) : 0)
                  .set("initializer", i.is_valid() ? static_cast<long>(reinterpret_cast<std::uintptr_t>(&i.get()) % 1000003) : 0);
               std::cout << vj::dump(ev) << "\n";
               p->init = lx.make_phantom();
            }
         }
         {  // Type::linkage() is transfer().linkage(), natural and foreign transfers
            impl::Warehouse<ipr::Type> wh;
            auto& prod = lx.get_product(wh);
            auto& java = lx.get_transfer_from_linkage(lx.get_linkage(u8"Java"));
            for (const ipr::Type* t : { &lx.int_type(), static_cast<const ipr::Type*>(&lx.get_pointer(lx.int_type())),
                                        static_cast<const ipr::Type*>(&lx.get_function(prod, lx.int_type(), java)),
                                        static_cast<const ipr::Type*>(&lx.get_as_type(lx.false_value(), java)) }) {
               auto ev = derived("type_linkage"); ev.set("same", &t->linkage() == &t->transfer().linkage()); std::cout << vj::dump(ev) << "\n";
            }
         }
         // -- equalities: all pairs of six values per sort
         std::vector<std::string> sp { "", "C", "C++", "Java", "Java", "cdecl" };
         {
            std::vector<const ipr::Logogram*> v;
            for (auto& s : sp) v.push_back(&lx.get_logogram(lx.get_string(vh::u8(s))));
            equality_event("Logogram", v, sp);
            std::vector<const ipr::Linkage*> l;
            for (auto& s : sp) l.push_back(&lx.get_linkage(vh::u8(s)));
            equality_event("Linkage", l, sp);
            std::vector<const ipr::Calling_convention*> c;
            for (auto& s : sp) c.push_back(&lx.get_calling_convention(vh::u8(s)));
            equality_event("Calling_convention", c, sp);
            std::vector<const ipr::Transfer*> x;
            std::vector<std::string> xs;
            for (std::size_t a = 0; a < sp.size(); a += 2)
               for (std::size_t b = 0; b < sp.size(); b += 1) { x.push_back(&lx.get_transfer(*l[a], *c[b])); xs.push_back(sp[a] + "/" + sp[b]); }
            x.push_back(&lx.int_type().transfer()); xs.push_back("C++/");
            equality_event("Transfer", x, xs);
         }
         {
            const ipr::Lexicon& il = lx;
            // (spellings in prefix relations included: equality is equality of the whole spelling, in both directions)
            std::vector<std::string> words { "static", "const", "static", "virtual", "volatile", "const", "stat", "static_assert", "", "in", "inline" };
            std::vector<ipr::Basic_specifier> bs;
            std::vector<ipr::Basic_qualifier> bq;
            for (auto& wd : words) { auto& lg = lx.get_logogram(lx.get_string(vh::u8(wd))); bs.emplace_back(lg); bq.emplace_back(lg); }
            (void)il;
            std::vector<const ipr::Basic_specifier*> ps; for (auto& b : bs) ps.push_back(&b);
            std::vector<const ipr::Basic_qualifier*> pq; for (auto& b : bq) pq.push_back(&b);
            equality_event("Basic_specifier", ps, words);
            equality_event("Basic_qualifier", pq, words);
         }
         // -- Optional: an absent value is a valid answer, get() on it is refused
         auto v = st.unit.global_scope()->make_var(st.name(), lx.int_type());
         const ipr::Var& iv = *v;
         optional_event("Var::initializer (unset)", iv.initializer());
         v->init = lx.make_phantom();
         optional_event("Var::initializer (set)", iv.initializer());
         auto add = lx.make_address(*lx.make_phantom());
         optional_event("Address::implementation (unset)", static_cast<const ipr::Address*>(add)->implementation());
         auto iff = lx.make_if(*lx.make_phantom(), *lx.make_phantom());
         optional_event("If::alternative (absent)", static_cast<const ipr::If*>(iff)->alternative());
         optional_event("Scope lookup (undeclared)", (*static_cast<const ipr::Scope*>(st.unit.global_scope()))[lx.get_identifier(u8"nowhere")]);
         optional_event("Region::owner (sub-region)", static_cast<const ipr::Region*>(st.unit.global_region()->make_subregion())->owner());
         optional_event("Enum::base (unset)", static_cast<const ipr::Enum*>(lx.make_enum(*st.unit.global_region(), ipr::Enum::Kind::Legacy))->base());
      }
      return 0;
   }
}

int main(int argc, char** argv)
{
   std::string mode = argc > 1 ? argv[1] : "";
   try {
      if (mode == "replay") return do_replay();
      if (mode == "replay-iter") return do_replay_iter(argc > 2 ? static_cast<std::size_t>(std::atoi(argv[2])) : 3);
      if (mode == "record") return do_record();
   }
   catch (const std::logic_error& e) {
      // the library throws logic errors, the harness run-time errors: one that arrives here escaped from a call of the library
      // where the harness expected none -- recorded like a crash (a terminal event), not as a failure of the harness
      std::cout.flush();
      std::cerr << "exception of the library escaped: " << e.what() << "\n";
      std::abort();
   }
   catch (const std::exception& e) {
      std::cout << "HARNESS-ERROR " << e.what() << "\n";
      return 2;
   }
   return 2;
}
