// Harness for spec/IprUnify.tla: executes get_* requests against a real Lexicon.
//   unify replay            stdin: TLC-generated behaviours with predicted outcomes (binding A)
//   unify record <opts>     stdout: ndjson trace of seeded random histories (binding B)
//   unify script            stdin: requests (ndjson) -> stdout: events (used for --replay of saved artefacts)
#include <algorithm>
#include <cstdio>
#include <cstdlib>
#include <unistd.h>
#include <iostream>
#include <random>
#include <set>
#include <sstream>
#include <ipr/io>
#include "world.hpp"

#include "unify_interp.hpp"
using vj::Value;
using namespace vu;
namespace impl = ipr::impl;

namespace {
   // ---------------------------------------------------------------------------------------------
   // The behaviour being executed is kept in the file named by VERIF_LASTBEH, so that a crash of the library
   // inside the replayer still leaves a replayable artefact.
   struct LastBeh {
      FILE* f = nullptr;
      LastBeh() { if (auto p = std::getenv("VERIF_LASTBEH")) f = std::fopen(p, "w"); }
      void note(const std::string& text)
      {
         if (f == nullptr) return;
         std::rewind(f);
         std::fwrite(text.data(), 1, text.size(), f);
         std::fputc('\n', f);
         std::fflush(f);
         if (ftruncate(fileno(f), static_cast<off_t>(text.size() + 1)) != 0) { }
      }
   };

   std::string tlc_unescape(const std::string& line)
   {
      // <<"BEH", "....">>  with \" and \\ escapes
      auto b = line.find("\", \"");
      auto e = line.rfind("\">>");
      if (b == std::string::npos or e == std::string::npos) return { };
      std::string out;
      for (std::size_t k = b + 4; k < e; ++k) {
         if (line[k] == '\\' and k + 1 < e) { out += line[k + 1]; ++k; }
         else out += line[k];
      }
      return out;
   }

   std::string classify(const Value& ev, const Value& o, int next_before)
   {
      // outcome class of an event: fresh / existing / const / refused / bool
      auto out = ev.at("out").as_str();
      if (out != "ok") return out == "refused" ? "refused" : "exception";
      auto c = o.at("c").as_str();
      if (c == "None") return "bool";
      int r = static_cast<int>(ev.at("r").as_int());
      if (r >= next_before) return "fresh";
      return r <= vh::World::NConst ? "const" : "existing";
   }

   std::string arg_shape(const Value& ev)
   {
      std::string s;
      for (auto& x : *ev.at("a").a) s += x.as_int() <= vh::World::NConst ? 'c' : 'n';
      if (ev.get_int("q", 0) != 0) s += 'q';
      if (not ev.get_str("w", "").empty()) s += 'w';
      return s;
   }

   int do_replay()
   {
      std::ios::sync_with_stdio(false);
      std::string line;
      LastBeh lastbeh;
      long behaviours = 0, steps = 0, failed = 0, printed = 0, tolerated = 0;
      std::set<std::string> classes;
      std::map<std::string, long> fail_keys;
      std::string sample;
      while (std::getline(std::cin, line)) {
         std::string text = line.rfind("<<\"BEH\"", 0) == 0 ? tlc_unescape(line) : line;
         if (text.empty() or text[0] != '[') continue;
         Value beh = vj::parse(text);
         lastbeh.note(text);
         ++behaviours;
         if (sample.empty()) sample = text;
         Interp in;
         if (not in.w.consts_canonical()) {
            ++failed;
            ++fail_keys["init:constants-not-distinct"];
            if (printed++ < 20) {
               auto f = Value::object();
               auto cs = Value::array();
               for (int c : in.w.consts) cs.push(c);
               f.set("key", "init:constants-not-distinct").set("step", 0).set("consts", cs).set("beh", Value::array());
               std::cout << "FAIL " << vj::dump(f) << "\n";
            }
            continue;
         }
         std::size_t k = 0;
         for (auto& h : *beh.a) {
            ++k;
            ++steps;
            const Value& exp = h.at("ev");
            int before = in.w.next_id();
            Value got;
            try { got = in.exec(exp); }
            catch (const std::exception& e) {
               std::cout << "HARNESS-ERROR " << e.what() << " in " << text << "\n";
               return 2;
            }
            bool same = got.at("out").as_str() == exp.at("out").as_str()
               and got.at("r").as_int() == exp.at("r").as_int()
               and vj::equal(got.at("o"), h.at("o"));
            auto cls = classify(exp, h.at("o"), before);
            classes.insert(exp.at("op").as_str() + "|" + cls + "|" + arg_shape(exp));
            if (not same and h.find("alt") and h.at("alt").as_int() != 0 and got.at("out").as_str() == "ok"
                and got.at("r").as_int() == h.at("alt").as_int()) {
               // the library answered with the constant itself where the specification predicted a look-alike of its own: the
               // properties allow both; identities diverge from here on, so the rest of this behaviour is not judged
               ++tolerated;
               break;
            }
            if (not same) {
               ++failed;
               std::string why = got.at("out").as_str() != exp.at("out").as_str() ? "outcome"
                  : got.at("r").as_int() != exp.at("r").as_int() ? "identity" : "observation";
               std::string key = exp.at("op").as_str() + ":" + why + ":" + cls + "/" + classify(got, got.at("o"), before);
               ++fail_keys[key];
               if (printed++ < 40) {
                  auto f = Value::object();
                  auto reqs = Value::array();
                  for (std::size_t j = 0; j < k; ++j) reqs.push((*beh.a)[j].at("ev"));
                  auto e2 = Value::object();
                  for (auto& kv : *exp.o) e2.set(kv.first, kv.second);
                  e2.set("o", h.at("o"));
                  bool nestedq = false;
                  if (exp.at("op").as_str() == "get_qualified" and exp.at("a").size() == 1) {
                     int t = static_cast<int>(exp.at("a").at(0).as_int());
                     nestedq = exp.at("q").as_int() == 0
                        or dynamic_cast<const ipr::Qualified*>(in.w.ent(t).node) != nullptr;
                  }
                  f.set("key", key).set("step", static_cast<long>(k)).set("expected", e2).set("got", got)
                     .set("beh", reqs).set("nestedq", nestedq);
                  std::cout << "FAIL " << vj::dump(f) << "\n";
               }
               break;
            }
         }
      }
      auto s = Value::object();
      auto fk = Value::object();
      for (auto& kv : fail_keys) fk.set(kv.first, kv.second);
      auto cl = Value::array();
      for (auto& c : classes) cl.push(c);
      s.set("behaviours", behaviours).set("steps", steps).set("failed", failed).set("fail_keys", fk)
         .set("classes", static_cast<long>(classes.size())).set("class_list", cl).set("sample", sample).set("constant_instead_of_lookalike", tolerated);
      std::cout << "SUMMARY " << vj::dump(s) << "\n";
      return 0;
   }

   // ---------------------------------------------------------------------------------------------
   int do_record(int argc, char** argv)
   {
      unsigned long seed = 1;
      int runs = 10, len = 100, noise = 0, focus = 0, edge = 0;
      std::vector<std::string> ops = all_ops;
      for (int k = 2; k + 1 < argc; k += 2) {
         std::string f = argv[k], v = argv[k + 1];
         if (f == "--seed") seed = std::stoul(v);
         else if (f == "--runs") runs = std::stoi(v);
         else if (f == "--len") len = std::stoi(v);
         else if (f == "--focus") focus = std::stoi(v);
         else if (f == "--wordset") {
            vocabulary.clear();
            std::stringstream ss(v);
            std::string o;
            while (std::getline(ss, o, '|')) vocabulary.push_back(o);
         }
         else if (f == "--noise") noise = std::stoi(v);   // unrelated insertions between two requests
         else if (f == "--edge") edge = std::stoi(v);     // every run starts right before the end of a string storage block
         else if (f == "--ops") {
            ops.clear();
            std::stringstream ss(v);
            std::string o;
            while (std::getline(ss, o, ',')) ops.push_back(o);
         }
      }
      std::ios::sync_with_stdio(false);
      Rng rng { seed };
      rng.focus = focus;
      for (int run = 0; run < runs; ++run) {
         Interp in;
         auto init = init_event(in);
         std::cout << vj::dump(init) << "\n";
         if (not in.w.consts_canonical()) continue;      // the init line says which constants coincide; nothing else can be numbered
         // repeat earlier requests with some probability so that hits are as frequent as misses
         std::vector<Value> past;
         for (int k = 0; k < len; ++k) {
            // (after a few requests, so that the first words of the first block are the history's own as well)
            if (edge and k == 6) vh::to_edge(in.w.lex, rng.below(64));
            Value req;
            if (not past.empty() and rng.coin(35))
               req = past[rng.below(static_cast<int>(past.size()))];
            else {
               bool ok = false;
               for (int tries = 0; tries < 20 and not ok; ++tries)
                  ok = random_request(in, rng, ops[rng.below(static_cast<int>(ops.size()))], req);
               if (not ok) continue;
               past.push_back(req);
            }
            // unrelated insertions that make the lookup trees grow and rebalance (not logged: they are
            // requests on spellings outside the trace vocabulary and pointer chains over a private class)
            for (int n = 0; n < noise; ++n) {
               auto s = "noise" + std::to_string(rng.below(1 << 30));
               auto& id = in.w.lex.get_identifier(vh::u8(s));
               auto& t = in.w.lex.get_as_type(id);
               in.w.lex.get_pointer(in.w.lex.get_qualified(in.w.quals(1 + rng.below(7)), t));
               in.w.lex.get_operator(vh::u8(s));
               in.w.lex.get_conversion(t);
               // every other table grows as well (all keyed on the private type `t`, so no logged request can hit them)
               auto& lx = in.w.lex;
               auto& p = lx.get_pointer(t);
               lx.get_reference(t); lx.get_rvalue_reference(p); lx.get_array(t, lx.false_value()); lx.get_ptr_to_member(t, p);
               impl::Warehouse<ipr::Type> wh;
               wh.push_back(t);
               if (rng.coin(50)) wh.push_back(p);
               auto& prod = lx.get_product(wh);
               auto& sum = lx.get_sum(wh);
               lx.get_function(prod, t); lx.get_function(prod, p, lx.true_value()); lx.get_forall(prod, t); lx.get_tor(prod, sum);
               lx.get_as_type(lx.get_literal(t, vh::u8(s))); lx.get_symbol(id, t); lx.get_this(t); lx.get_suffix(id);
               lx.get_ctor_name(t); lx.get_dtor_name(t); lx.get_logogram(lx.get_string(vh::u8(s)));
               auto& lk = lx.get_linkage(vh::u8(s));
               auto& cc = lx.get_calling_convention(vh::u8(s));
               auto& xf = lx.get_transfer(lk, cc);
               lx.get_function(prod, t, xf); lx.get_as_type(lx.false_value(), lx.get_transfer_from_linkage(lk));
            }
            std::cout << vj::dump(in.exec(req)) << "\n";
            // C05: an entity returned earlier reads exactly as it did when it was returned
            if (in.w.next_id() > vh::World::NConst + 1 and k % 2 == 0) {
               int id = vh::World::NConst + 1 + rng.below(in.w.next_id() - vh::World::NConst - 1);
               auto& e = in.w.ent(id);
               bool opaque = e.kind == vh::K_node and (dynamic_cast<const ipr::Class*>(e.node) or dynamic_cast<const ipr::Phantom*>(e.node)
                                                       or dynamic_cast<const ipr::Expr_list*>(e.node) or dynamic_cast<const ipr::Template*>(e.node));
               if (not opaque) {
                  auto ob = Value::object();
                  auto aa = Value::array();
                  aa.push(id);
                  ob.set("op", "observe").set("a", aa).set("q", 0).set("w", "").set("out", "ok").set("r", id).set("o", in.w.obs(id));
                  std::cout << vj::dump(ob) << "\n";
               }
            }
         }
         std::cout << "{\"op\":\"reset\",\"a\":[],\"q\":0,\"w\":\"\",\"out\":\"ok\",\"r\":0,\"o\":" << vj::dump(Interp::no_obs()) << "}\n";
      }
      return 0;
   }

   // ---------------------------------------------------------------------------------------------
   // spec/IprRender.tla: the text a fresh printer writes for the entity each call returned
   int do_replay_render()
   {
      std::ios::sync_with_stdio(false);
      std::string line;
      LastBeh lastbeh;
      long behaviours = 0, steps = 0, failed = 0, printed = 0, compared = 0;
      std::set<std::string> classes;
      std::map<std::string, long> fail_keys;
      std::string sample;
      while (std::getline(std::cin, line)) {
         std::string text = line.rfind("<<\"BEH\"", 0) == 0 ? tlc_unescape(line) : line;
         if (text.empty() or text[0] != '[') continue;
         Value beh = vj::parse(text);
         lastbeh.note(text);
         ++behaviours;
         if (sample.empty() or behaviours == 300) sample = text;
         Interp in;
         std::size_t k = 0;
         for (auto& h : *beh.a) {
            ++k; ++steps;
            const Value& exp = h.at("ev");
            Value got = in.exec(exp);
            auto& txt = h.at("txt");
            auto status = txt.at("s").as_str();
            if (status == "skip") continue;
            if (got.at("out").as_str() != "ok") continue;           // judged by IprUnify, not here
            auto& e = in.w.ent(static_cast<int>(got.at("r").as_int()));
            if (e.kind != vh::K_node) continue;
            std::ostringstream os;
            ipr::Printer pp { in.w.lex, os };
            std::string gs = "ok";
            try {
               if (auto t = dynamic_cast<const ipr::Type*>(e.node)) pp << ipr::xpr_type(*t);
               else if (auto x = dynamic_cast<const ipr::Expr*>(e.node)) pp << ipr::xpr_expr(*x);
               else if (auto nm = dynamic_cast<const ipr::Name*>(e.node)) pp << ipr::xpr_expr(*in.w.lex.make_id_expr(*nm));   // names print through an id-expression
               else throw vh::HarnessError(std::string("not an expression: ") + vh::cat_name(e.node->category) + " from " + exp.at("op").as_str());
            }
            catch (const std::logic_error&) { gs = "refused"; }
            ++compared;
            auto cat = std::string(vh::cat_name(e.node->category));
            classes.insert(cat + "|" + status);
            bool same = gs == status and (gs != "ok" or os.str() == txt.at("t").as_str());
            if (not same) {
               ++failed;
               auto key = cat + ":" + (gs != status ? "outcome" : "text");
               ++fail_keys[key];
               if (printed++ < 30) {
                  auto f = Value::object();
                  auto reqs = Value::array();
                  for (std::size_t j = 0; j < k; ++j) reqs.push((*beh.a)[j].at("ev"));
                  auto g = Value::object();
                  g.set("s", gs).set("t", os.str());
                  f.set("key", key).set("step", static_cast<long>(k)).set("expected", txt).set("got", g).set("beh", reqs);
                  std::cout << "FAIL " << vj::dump(f) << "\n";
               }
               break;
            }
         }
      }
      auto s = Value::object();
      auto fk = Value::object();
      for (auto& kv : fail_keys) fk.set(kv.first, kv.second);
      auto cl = Value::array();
      for (auto& c : classes) cl.push(c);
      s.set("behaviours", behaviours).set("steps", steps).set("failed", failed).set("fail_keys", fk)
         .set("classes", static_cast<long>(classes.size())).set("class_list", cl).set("sample", sample).set("compared", compared);
      std::cout << "SUMMARY " << vj::dump(s) << "\n";
      return 0;
   }

   int do_script()
   {
      std::string line;
      std::unique_ptr<Interp> in;
      auto start = [&]() {
         in = std::make_unique<Interp>();
         auto init = init_event(*in);
         std::cout << vj::dump(init) << "\n";
      };
      start();
      while (std::getline(std::cin, line)) {
         if (line.empty()) continue;
         Value req = vj::parse(line);
         auto op = req.at("op").as_str();
         if (op == "init") continue;
         if (op == "reset") {
            std::cout << "{\"op\":\"reset\",\"a\":[],\"q\":0,\"w\":\"\",\"out\":\"ok\",\"r\":0,\"o\":" << vj::dump(Interp::no_obs()) << "}\n";
            start();
            continue;
         }
         std::cout << vj::dump(in->exec(req)) << "\n";
      }
      return 0;
   }
}

int main(int argc, char** argv)
{
   std::string mode = argc > 1 ? argv[1] : "";
   try {
      if (mode == "replay") return do_replay();
      if (mode == "replay-render") return do_replay_render();
      if (mode == "record") return do_record(argc, argv);
      if (mode == "script") return do_script();
   }
   catch (const std::logic_error& e) {
      // the library throws logic errors, the harness run-time errors: one that arrives here escaped from a call of the library
      // where the harness expected none -- recorded like a crash (a terminal event), not as a failure of the harness
      std::cout.flush();
      std::cerr << "exception of the library escaped: " << e.what() << "\n";
      std::abort();
   }
   catch (const std::exception& e) {
      std::cout << "HARNESS-ERROR " << e.what() << "\n";
      return 2;
   }
   std::cerr << "usage: unify replay|record|script\n";
   return 2;
}
