// Harness for spec/IprVisitor*.tla (property C06): builds one instance of every implementation class the library
// ships for every interface category (the "zoo"), and records for each instance its category, the hooks accept()
// reaches with a visitor that overrides nothing but records, the sink a sinks-only visitor receives it in, and
// the categories K for which util::view<K> yields the node.
//   visit zoo       stdout: ndjson, one line per instance
#include <algorithm>
#include <cxxabi.h>
#include <functional>
#include <cstdlib>
#include <iostream>
#include <set>
#include <typeinfo>
#include "zoo.hpp"

using vj::Value;
using namespace vm;

namespace {
   // Records every hook entered; each hook then runs the library's default (which forwards to the super-category).
   struct Recorder : ipr::Visitor {
      std::vector<std::string> hooks;
      int depth = 0, entries = 0;
      const void* target = nullptr;         // the node accept() was called on
      int strangers = 0;                    // hooks that were handed another object than that node
      void seen(const ipr::Node& n) { if (static_cast<const void*>(&n) != target) ++strangers; }
      template<class F> void enter(const char* name, F next)
      {
         if (depth == 0) ++entries;
         hooks.push_back(name);
         ++depth;
         next();
         --depth;
      }
      void visit(const ipr::Node& n) override { seen(n); enter("Node", [] { }); }
      void visit(const ipr::Expr& n) override { seen(n); enter("Expr", [] { }); }
      void visit(const ipr::Name& n) override { seen(n); enter("Name", [] { }); }
      void visit(const ipr::Type& n) override { seen(n); enter("Type", [] { }); }
      void visit(const ipr::Directive& n) override { seen(n); enter("Directive", [] { }); }
      void visit(const ipr::Stmt& n) override { seen(n); enter("Stmt", [] { }); }
      void visit(const ipr::Decl& n) override { seen(n); enter("Decl", [] { }); }
      void visit(const ipr::Classic& n) override { seen(n); enter("Classic", [&] { ipr::Visitor::visit(n); }); }
#define LEAF(K) void visit(const ipr::K& n) override { seen(n); enter(#K, [&] { ipr::Visitor::visit(n); }); }
#include "leaf_categories.inc"
#undef LEAF
   };

   // A visitor that defines only the seven sinks.
   struct SinksOnly : ipr::Visitor {
      std::string sink;
      void visit(const ipr::Node&) override { sink += "Node"; }
      void visit(const ipr::Expr&) override { sink += "Expr"; }
      void visit(const ipr::Name&) override { sink += "Name"; }
      void visit(const ipr::Type&) override { sink += "Type"; }
      void visit(const ipr::Directive&) override { sink += "Directive"; }
      void visit(const ipr::Stmt&) override { sink += "Stmt"; }
      void visit(const ipr::Decl&) override { sink += "Decl"; }
   };

   std::string demangle(const char* n)
   {
      int st = 0;
      char* d = abi::__cxa_demangle(n, nullptr, nullptr, &st);
      std::string s = st == 0 and d ? d : n;
      std::free(d);
      return s;
   }

   Value views_of(const ipr::Node& n)
   {
      auto a = Value::array();
#define LEAF(K) if (ipr::util::view<ipr::K>(n) != nullptr) a.push(#K);
#include "leaf_categories.inc"
#undef LEAF
      return a;
   }

   // accept() entered again from inside the hook it called, on the same node, Limit levels deep (a recursive visitor over a deeply
   // nested program does this for every class on its path): every level must reach the node's own hook, and view<K> asked from the
   // innermost hook must still yield the node for its own category only.
   struct Nested : ipr::Visitor {
      static constexpr int Limit = 300;
      int level = 0, own = 0, other = 0;
      Value inner = Value::array();
      void visit(const ipr::Node&) override { ++other; }
      void visit(const ipr::Expr&) override { ++other; }
      void visit(const ipr::Name&) override { ++other; }
      void visit(const ipr::Type&) override { ++other; }
      void visit(const ipr::Directive&) override { ++other; }
      void visit(const ipr::Stmt&) override { ++other; }
      void visit(const ipr::Decl&) override { ++other; }
      template<class K> void again(const K& n)
      {
         ++own;
         if (level < Limit) { ++level; n.accept(*this); --level; }
         else inner = views_of(n);
      }
#define LEAF(K) void visit(const ipr::K& n) override { again(n); }
#include "leaf_categories.inc"
#undef LEAF
   };

   Value visit_event(const ipr::Node& n, const std::string& how)
   {
      Recorder rec;
      rec.target = static_cast<const void*>(&n);
      n.accept(rec);
      SinksOnly so;
      n.accept(so);
      Nested ne;
      n.accept(ne);
      auto ev = Value::object();
      ev.set("nestdepth", Nested::Limit + 1).set("nested", ne.own).set("strays", ne.other).set("innerviews", ne.inner);
      auto hooks = Value::array();
      for (auto& hk : rec.hooks) hooks.push(hk);
      ev.set("e", "visit").set("impl", demangle(typeid(n).name())).set("how", how)
         .set("cat", vh::cat_name(n.category)).set("hooks", hooks).set("handed_other_object", rec.strangers).set("entries", rec.entries).set("views", views_of(n))
         .set("sink", so.sink);
      return ev;
   }

   int do_zoo()
   {
      {
         Zoo z;
         z.build();
         for (auto& p : z.all) std::cout << vj::dump(visit_event(*p.first, p.second)) << "\n";
      }
      // A node that takes the place of another: a Lexicon with one node of kind A is asked everything and destroyed, then a second
      // Lexicon builds one node of kind B, which the allocator usually puts where the first one was.  What was learnt about the
      // first node says nothing about the second.
      using Make = std::function<const ipr::Node*(impl::Lexicon&)>;
      std::vector<std::pair<std::string, Make>> kinds {
         { "Identifier", [](impl::Lexicon& lx) -> const ipr::Node* { return &lx.get_identifier(u8"reuse"); } },
         { "Operator", [](impl::Lexicon& lx) -> const ipr::Node* { return &lx.get_operator(u8"reuse"); } },
         { "Suffix", [](impl::Lexicon& lx) -> const ipr::Node* { return &lx.get_suffix(static_cast<const ipr::Identifier&>(lx.int_type().name())); } },
         { "Conversion", [](impl::Lexicon& lx) -> const ipr::Node* { return &lx.get_conversion(lx.int_type()); } },
         { "Ctor_name", [](impl::Lexicon& lx) -> const ipr::Node* { return &lx.get_ctor_name(lx.int_type()); } },
         { "Dtor_name", [](impl::Lexicon& lx) -> const ipr::Node* { return &lx.get_dtor_name(lx.int_type()); } },
         { "Pointer", [](impl::Lexicon& lx) -> const ipr::Node* { return &lx.get_pointer(lx.int_type()); } },
         { "Reference", [](impl::Lexicon& lx) -> const ipr::Node* { return &lx.get_reference(lx.int_type()); } },
         { "Rvalue_reference", [](impl::Lexicon& lx) -> const ipr::Node* { return &lx.get_rvalue_reference(lx.int_type()); } },
         { "As_type", [](impl::Lexicon& lx) -> const ipr::Node* { return &lx.get_as_type(lx.false_value()); } },
         { "Phantom", [](impl::Lexicon& lx) -> const ipr::Node* { return lx.make_phantom(); } },
         { "Break", [](impl::Lexicon& lx) -> const ipr::Node* { return lx.make_break(); } },
         { "Continue", [](impl::Lexicon& lx) -> const ipr::Node* { return lx.make_continue(); } },
         { "Address", [](impl::Lexicon& lx) -> const ipr::Node* { return lx.make_address(lx.false_value()); } },
         { "Not", [](impl::Lexicon& lx) -> const ipr::Node* { return lx.make_not(lx.false_value()); } },
      };
      long same = 0, pairs = 0;
      for (auto& a : kinds)
         for (auto& b : kinds) {
            if (a.first == b.first) continue;
            const void* where = nullptr;
            {
               impl::Lexicon lx;
               auto n = a.second(lx);
               where = n;
               (void)visit_event(*n, "");
            }
            impl::Lexicon lx;
            auto n = b.second(lx);
            ++pairs;
            bool coincide = static_cast<const void*>(n) == where;
            if (coincide) ++same;
            std::cout << vj::dump(visit_event(*n, std::string(coincide ? "in the place of" : "after") + " a destroyed " + a.first)) << "\n";
         }
      std::cerr << "{\"e\":\"note\",\"what\":\"nodes built where a destroyed node of another kind was\",\"pairs\":" << pairs
                << ",\"same_address\":" << same << "}\n";
      return 0;
   }
}

int main(int argc, char** argv)
{
   std::string mode = argc > 1 ? argv[1] : "";
   try {
      if (mode == "zoo") return do_zoo();
   }
   catch (const std::logic_error& e) {
      // the library throws logic errors, the harness run-time errors: one that arrives here escaped from a call of the library
      // where the harness expected none -- recorded like a crash (a terminal event), not as a failure of the harness
      std::cout.flush();
      std::cerr << "exception of the library escaped: " << e.what() << "\n";
      std::abort();
   }
   catch (const std::exception& e) {
      std::cout << "HARNESS-ERROR " << e.what() << "\n";
      return 2;
   }
   return 2;
}
