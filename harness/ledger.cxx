// Harness for spec/IprLedger*.tla (property C19): the global allocation functions are replaced and every allocation and
// release made while a Lexicon (with units, modules, graphs, printing) lives is entered in a ledger.
//   ledger record --seed S       stdout: ndjson; per history kind: a warm-up run (not judged), then two runs, written
//                                allocation by allocation when short, as counters when long
#include <algorithm>
#include <cstdio>
#include <cstdlib>
#include <iostream>
#include <new>
#include <random>
#include <sstream>
#include <unordered_map>
#include <ipr/io>
#include "zoo.hpp"

using vj::Value;
using namespace vm;

// ---- the ledger -----------------------------------------------------------------------------------------
namespace ledger {
   bool tracking = false;
   thread_local bool inside = false;
   struct Event { bool alloc; long id; };
   struct State {
      std::unordered_map<void*, long> live;
      std::vector<Event> events;
      long next_id = 0, allocs = 0, frees = 0, foreign = 0;
      bool keep_events = true;
   };
   State* st = nullptr;
   void on_alloc(void* p)
   {
      ++st->allocs;
      long id = ++st->next_id;
      st->live[p] = id;
      if (st->keep_events) st->events.push_back({true, id});
   }
   void on_free(void* p)
   {
      auto it = st->live.find(p);
      if (it == st->live.end()) { ++st->foreign; return; }     // not allocated inside the window
      ++st->frees;
      if (st->keep_events) st->events.push_back({false, it->second});
      st->live.erase(it);
   }
}

void* operator new(std::size_t n)
{
   void* p = std::malloc(n ? n : 1);
   if (p == nullptr) throw std::bad_alloc{};
   if (ledger::tracking and not ledger::inside) { ledger::inside = true; ledger::on_alloc(p); ledger::inside = false; }
   return p;
}
void* operator new[](std::size_t n) { return operator new(n); }
void operator delete(void* p) noexcept
{
   if (p == nullptr) return;
   if (ledger::tracking and not ledger::inside) { ledger::inside = true; ledger::on_free(p); ledger::inside = false; }
   std::free(p);
}
void operator delete[](void* p) noexcept { operator delete(p); }
void operator delete(void* p, std::size_t) noexcept { operator delete(p); }
void operator delete[](void* p, std::size_t) noexcept { operator delete(p); }

namespace {
   // ---- histories ------------------------------------------------------------------------------------------
   void history(const std::string& kind, unsigned long seed)
   {
      std::mt19937_64 g { seed };
      auto below = [&](int n) { return static_cast<int>(g() % static_cast<unsigned long>(n)); };
      if (kind == "empty") { impl::Lexicon lex; (void)lex; }
      else if (kind == "unit") { impl::Lexicon lex; impl::Translation_unit u { lex }; (void)u; }
      else if (kind == "names") {
         impl::Lexicon lex;
         for (int k = 0; k < 6; ++k) {
            auto& id = lex.get_identifier(vh::u8("n" + std::to_string(below(4))));
            lex.get_operator(vh::u8("op" + std::to_string(below(3))));
            lex.get_suffix(id);
            lex.get_logogram(lex.get_string(vh::u8("lg" + std::to_string(below(3)))));
         }
      }
      else if (kind == "types") {
         impl::Lexicon lex;
         std::vector<const ipr::Type*> ts { &lex.int_type(), &lex.char_type() };
         for (int k = 0; k < 60; ++k) {
            auto& t = *ts[static_cast<std::size_t>(below(static_cast<int>(ts.size())))];
            switch (below(8)) {
            case 0: ts.push_back(&lex.get_pointer(t)); break;
            case 1: ts.push_back(&lex.get_reference(t)); break;
            case 2: ts.push_back(&lex.get_qualified(lex.const_qualifier(), t)); break;
            case 3: { impl::Warehouse<ipr::Type> wh; wh.push_back(t); wh.push_back(lex.int_type()); ts.push_back(&lex.get_product(wh)); break; }
            case 4: { impl::Warehouse<ipr::Type> wh; wh.push_back(t); ts.push_back(&lex.get_function(lex.get_product(wh), t)); break; }
            case 5: ts.push_back(&lex.get_array(t, lex.false_value())); break;
            case 6: ts.push_back(&lex.get_as_type(lex.get_identifier(vh::u8("T" + std::to_string(below(5)))))); break;
            default: { impl::Warehouse<ipr::Type> wh; wh.push_back(t); ts.push_back(&lex.get_function(lex.get_product(wh), t, lex.get_transfer_from_linkage(lex.get_linkage(u8"Java")))); }
            }
         }
      }
      else if (kind == "scopes") {
         impl::Lexicon lex;
         impl::Translation_unit u { lex };
         auto cls = lex.make_class(*u.global_region());
         for (int k = 0; k < 40; ++k) {
            auto& n = lex.get_identifier(vh::u8("d" + std::to_string(below(6))));
            auto& t = below(2) ? lex.int_type() : lex.char_type();
            (below(2) ? u.global_scope() : &cls->body.scope)->make_var(n, t);
            (void)(*static_cast<const ipr::Scope*>(u.global_scope()))[n];
         }
         auto en = lex.make_enum(*u.global_region(), ipr::Enum::Kind::Scoped);
         for (int k = 0; k < 5; ++k) en->add_member(lex.get_identifier(vh::u8("e" + std::to_string(k))));
         cls->declare_base(lex.int_type());
         // one name declared as a function, a variable, a type, a primary and a secondary template, in every order of two, each
         // declared twice (the records kept per name and type are of different kinds and sizes)
         impl::Warehouse<ipr::Type> none, one;
         one.push_back(lex.typename_type());
         auto& fun = lex.get_function(lex.get_product(none), lex.int_type());
         auto& fa1 = lex.get_forall(lex.get_product(one), lex.int_type());
         auto& fa2 = lex.get_forall(lex.get_product(one), lex.char_type());
         int mixed = 0;
         for (int first = 0; first < 5; ++first)
            for (int second = 0; second < 5; ++second) {
               auto& n = lex.get_identifier(vh::u8("mixed" + std::to_string(++mixed)));
               auto sc = (mixed % 2) ? u.global_scope() : &cls->body.scope;
               for (int round = 0; round < 2; ++round)
                  for (int what : { first, second })
                     switch (what) {
                     case 0: sc->make_fundecl(n, fun); break;
                     case 1: sc->make_var(n, lex.char_type()); break;
                     case 2: sc->make_typedecl(n, lex.class_type()); break;
                     case 3: sc->make_primary_template(n, fa1); break;
                     default: sc->make_secondary_template(n, fa2); break;
                     }
            }
      }
      else if (kind == "regions") {
         impl::Lexicon lex;
         impl::Translation_unit u { lex };
         impl::Module m { lex };
         m.make_unit();
         const ipr::Region* r = u.global_region();
         for (int k = 0; k < 12; ++k) {
            auto b = lex.make_block(*r);
            auto h = b->new_handler(lex.get_identifier(u8"x"), lex.int_type());
            h->body().add_stmt(*lex.make_break());
            auto mp = lex.make_mapping(b->lexical_region, ipr::Mapping_level{static_cast<std::size_t>(k)});
            mp->param(lex.get_identifier(u8"p"), lex.int_type());
            r = &b->lexical_region;
         }
      }
      else if (kind == "strings") {
         impl::Lexicon lex;
         for (std::size_t n : {std::size_t(10), std::size_t(70000), std::size_t(1048600), std::size_t(500000), std::size_t(600000), std::size_t(2000000)}) {
            std::string s(n, 'a');
            s[n / 2] = static_cast<char>('b' + below(20));
            lex.get_string(vh::u8(s));
         }
         for (int k = 0; k < 300; ++k) lex.get_string(vh::u8(std::string(static_cast<std::size_t>(1 + below(9000)), 'z') + std::to_string(k)));
      }
      else if (kind == "zoo+print") {
         Zoo z;
         z.build();
         for (auto& p : z.all)
            if (auto e = dynamic_cast<const ipr::Expr*>(p.first)) {
               std::ostringstream os;
               ipr::Printer pp { z.mk.w.lex, os };
               try { pp << ipr::xpr_expr(*e); } catch (const std::logic_error&) { }
            }
         std::ostringstream os;
         ipr::Printer pp { z.mk.w.lex, os };
         try { pp << static_cast<const ipr::Translation_unit&>(z.mk.w.unit); } catch (const std::logic_error&) { }
      }
      else if (kind == "constants") {
         // requests whose arguments are process-wide constants only: whatever a Lexicon builds for them is its own, and a
         // later Lexicon (the histories run one after another in this process) must get nodes of its own storage
         impl::Lexicon lex;
         const ipr::Lexicon& clex = lex;
         auto& xc = lex.get_transfer_from_linkage(clex.c_linkage());
         auto& xx = lex.get_transfer_from_linkage(clex.cxx_linkage());
         auto& xn = lex.get_transfer(clex.c_linkage(), lex.get_calling_convention(u8""));
         auto& xj = lex.get_transfer(clex.cxx_linkage(), lex.get_calling_convention(u8"cdecl"));
         impl::Warehouse<ipr::Type> wh;
         wh.push_back(lex.int_type());
         auto& prod = lex.get_product(wh);
         for (auto x : { &xc, &xx, &xn, &xj, &impl::cxx_transfer() }) {
            auto& f = lex.get_function(prod, lex.void_type(), *x);
            (void)f.transfer().linkage().language().what().size();
            (void)f.transfer().convention().name().what().size();
            auto& t = lex.get_as_type(lex.true_value(), *x);
            (void)(t.transfer() == f.transfer());
         }
         lex.get_function(prod, lex.int_type());
         lex.get_function(prod, lex.int_type(), lex.false_value());
         for (auto w : { u8"int", u8"unsigned long long", u8"class", u8"...", u8"x", u8"C", u8"C++", u8"default", u8"" }) {
            auto& id = lex.get_identifier(w);
            (void)lex.get_as_type(id).name();
            (void)lex.get_linkage(w).language().what().size();
            (void)lex.get_calling_convention(w).name().what().size();
            lex.get_label(id);
            lex.get_symbol(id, lex.int_type());
            (void)lex.get_logogram(lex.get_string(w)).what().size();
            lex.get_operator(w);
            lex.get_literal(lex.char_type(), w);
         }
         for (auto t : { &lex.void_type(), &lex.int_type(), &lex.typename_type(), &lex.class_type() }) {
            lex.get_pointer(*t); lex.get_reference(*t); lex.get_rvalue_reference(*t);
            lex.get_qualified(clex.const_qualifier(), *t);
            lex.get_qualified(clex.const_qualifier() | clex.volatile_qualifier(), *t);
            lex.get_array(*t, lex.nullptr_value());
            lex.get_this(*t); lex.get_ctor_name(*t); lex.get_dtor_name(*t); lex.get_conversion(*t);
            lex.get_decltype(lex.true_value());
            lex.get_as_type(lex.default_value());
         }
         (void)lex.get_auto();
         for (auto& b : lex.decompose(clex.static_specifier() | clex.inline_specifier())) (void)b.logogram().what().size();
         for (auto& b : lex.decompose(clex.const_qualifier() | clex.volatile_qualifier())) (void)b.logogram().what().size();
      }
      else if (kind == "deep-print") {
         // printing at an indentation far beyond anything a fixed-size helper could hold
         impl::Lexicon lex;
         impl::Translation_unit u { lex };
         std::vector<impl::Block*> blocks;
         const ipr::Region* r = u.global_region();
         for (int k = 0; k < 40; ++k) { blocks.push_back(lex.make_block(*r)); r = &blocks.back()->lexical_region; }
         blocks.back()->add_stmt(*lex.make_break());
         for (std::size_t k = blocks.size() - 1; k > 0; --k) blocks[k - 1]->add_stmt(*blocks[k]);
         std::ostringstream os;
         ipr::Printer pp { lex, os };
         pp << ipr::xpr_stmt(*blocks.front());
         pp.indent(5000);
         pp << ipr::xpr_stmt(*blocks.back());
      }
      else if (kind == "big-tables") {
         // every kind of lookup table with hundreds of entries, entered in descending, ascending and zig-zag key order (the
         // extreme shapes a balanced tree takes), then torn down with the Lexicon
         impl::Lexicon lex;
         impl::Translation_unit u { lex };
         auto word = [](const char* pre, int k) { char b[32]; std::snprintf(b, sizeof b, "%s%04d", pre, k); return vh::u8(b); };
         const int n = 300;
         for (int k = n; k-- > 0; ) lex.get_identifier(word("d", k));                       // descending spellings
         for (int k = 0; k < n; ++k) lex.get_identifier(word("a", k));                      // ascending
         for (int k = 0; k < n; ++k) lex.get_identifier(word("z", k % 2 ? n - k : k));      // zig-zag
         std::vector<const ipr::Type*> ts;
         for (int k = 0; k < n; ++k) ts.push_back(&lex.get_as_type(lex.get_identifier(word("t", k))));
         for (int k = n; k-- > 0; ) lex.get_pointer(*ts[static_cast<std::size_t>(k)]);
         for (int k = 0; k < n; ++k) lex.get_reference(*ts[static_cast<std::size_t>(k)]);
         for (int k = 0; k < n; ++k) lex.get_qualified(lex.const_qualifier(), *ts[static_cast<std::size_t>(k % 2 ? n - k : k)]);
         for (int k = n; k-- > 0; ) lex.make_literal(lex.int_type(), word("", k));
         for (int k = n; k-- > 0; ) lex.get_logogram(lex.get_string(word("lg", k)));
         auto cls = lex.make_class(*u.global_region());
         for (int k = n; k-- > 0; ) u.global_scope()->make_var(lex.get_identifier(word("d", k)), lex.int_type());
         for (int k = 0; k < n; ++k) cls->body.scope.make_var(lex.get_identifier(word("a", k)), lex.int_type());
         for (int k = n; k-- > 0; ) cls->body.scope.make_var(lex.get_identifier(u8"overloaded"), *ts[static_cast<std::size_t>(k)]);
      }
      else if (kind == "two-lexicons") {
         impl::Lexicon a;
         {
            impl::Lexicon b;
            impl::Translation_unit ub { b };
            ub.global_scope()->make_var(b.get_identifier(u8"v"), b.get_pointer(b.int_type()));
            a.get_pointer(a.int_type());
         }
         impl::Translation_unit ua { a };
         ua.global_scope()->make_var(a.get_identifier(u8"v"), a.get_pointer(a.int_type()));
      }
      else
         throw vh::HarnessError("unknown history " + kind);
   }

   int do_record(int argc, char** argv)
   {
      unsigned long seed = 1;
      for (int k = 2; k + 1 < argc; k += 2) if (std::string(argv[k]) == "--seed") seed = std::stoul(argv[k + 1]);
      static ledger::State state;
      ledger::st = &state;
      for (std::string kind : { "empty", "unit", "names", "types", "scopes", "regions", "strings", "zoo+print", "two-lexicons", "constants", "deep-print", "big-tables" }) {
         history(kind, seed);                                       // warm-up: lazy initialisation of the runtime
         for (int run = 2; run <= 3; ++run) {
            ledger::inside = true;
            state.live.clear(); state.events.clear();
            state.allocs = state.frees = state.foreign = 0;
            state.keep_events = true;
            ledger::inside = false;
            ledger::tracking = true;
            history(kind, seed + static_cast<unsigned long>(run));
            ledger::tracking = false;
            long outstanding = static_cast<long>(state.live.size());
            if (state.allocs <= 400) {
               auto b = Value::object();
               b.set("e", "begin").set("kind", kind).set("run", run);
               std::cout << vj::dump(b) << "\n";
               for (auto& ev : state.events)
                  std::cout << "{\"e\":\"" << (ev.alloc ? "alloc" : "free") << "\",\"id\":" << ev.id << "}\n";
               // releases of things that were not allocated inside the window are not ledger steps
               for (long k = 0; k < state.foreign; ++k) std::cout << "{\"e\":\"free\",\"id\":0}\n";
               std::cout << "{\"e\":\"end\"}\n";
            }
            auto s = Value::object();
            s.set("e", "summary").set("kind", kind).set("run", run).set("allocs", state.allocs).set("frees", state.frees)
               .set("outstanding", outstanding).set("double_free", 0).set("foreign_free", state.foreign);
            std::cout << vj::dump(s) << "\n";
         }
      }
      return 0;
   }
}

int main(int argc, char** argv)
{
   std::string mode = argc > 1 ? argv[1] : "";
   try {
      if (mode == "record") return do_record(argc, argv);
   }
   catch (const std::logic_error& e) {
      // the library throws logic errors, the harness run-time errors: one that arrives here escaped from a call of the library
      // where the harness expected none -- recorded like a crash (a terminal event), not as a failure of the harness
      std::cout.flush();
      std::cerr << "exception of the library escaped: " << e.what() << "\n";
      std::abort();
   }
   catch (const std::exception& e) {
      std::cout << "HARNESS-ERROR " << e.what() << "\n";
      return 2;
   }
   return 2;
}
