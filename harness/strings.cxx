// Harness for spec/IprStrings*.tla and spec/Arena*.tla (property C03).
//   strings replay                  stdin: TLC behaviours of intern requests over two Lexicons (binding A)
//   strings record --seed S --n N   stdout: ndjson trace: reserved words and near misses, all byte values, NULs,
//                                   unterminated sources, arena boundaries, random history (binding B)
//   strings lengths                 stdin: sequences of word lengths produced from the I-level Arena model
//                                   stdout: ndjson trace (validated by IprStringsTrace)
#include <algorithm>
#include <cstdio>
#include <cstdlib>
#include <cstring>
#include <functional>
#include <iostream>
#include <memory>
#include <random>
#include <set>
#include <unistd.h>
#include "world.hpp"

using vj::Value;
namespace impl = ipr::impl;

namespace {
   std::string enc(std::string_view bytes)
   {
      if (bytes.size() <= 64) return vh::hex(bytes);
      unsigned long long h = 1469598103934665603ull;
      for (unsigned char c : bytes) { h ^= c; h *= 1099511628211ull; }
      char buf[64];
      std::snprintf(buf, sizeof buf, "#%zu:%016llx", bytes.size(), h);
      return buf;
   }
   std::string enc(ipr::util::word_view w) { return enc(std::string_view(reinterpret_cast<const char*>(w.data()), w.size())); }

   struct Pools {
      std::vector<std::unique_ptr<impl::Lexicon>> lex;
      std::map<const ipr::String*, int> ids;
      std::vector<const ipr::String*> strings { nullptr };
      explicit Pools(int n)
      {
         for (int k = 0; k < n; ++k) lex.push_back(std::make_unique<impl::Lexicon>());
         reg(ipr::String::empty_string());
      }
      int reg(const ipr::String& s)
      {
         auto it = ids.find(&s);
         if (it != ids.end()) return it->second;
         strings.push_back(&s);
         return ids[&s] = static_cast<int>(strings.size()) - 1;
      }
      // intern `len` bytes at `p` (not necessarily NUL-terminated) in lexicon lx (1-based)
      // Every second request is preceded by a request for a name or an atom with that spelling (operator, identifier, linkage,
      // calling convention, literal, in turn): whoever asked first, the word is the one String of that content.
      unsigned long detours = 0;
      const ipr::String& intern(int lx, const char* p, std::size_t len)
      {
         auto& l = *lex.at(lx - 1);
         ipr::util::word_view w(reinterpret_cast<const char8_t*>(p), len);
         switch (++detours % 10) {
         case 1: (void)l.get_operator(w); break;
         case 3: (void)l.get_identifier(w); break;
         case 5: (void)l.get_linkage(w); break;
         case 7: (void)l.get_calling_convention(w); break;
         case 9: (void)l.get_literal(l.int_type(), w); break;
         default: break;
         }
         return l.get_string(w);
      }
      Value intern_event(int lx, std::string_view bytes)
      {
         auto& s = intern(lx, bytes.data(), bytes.size());
         auto ev = Value::object();
         ev.set("e", "intern").set("lx", lx).set("w", enc(bytes)).set("r", reg(s)).set("chars", enc(s.characters()))
            .set("size", static_cast<long>(s.size()));
         return ev;
      }
      Value observe_event(int id)
      {
         auto ev = Value::object();
         ev.set("e", "observe").set("id", id).set("chars", enc(strings.at(id)->characters()));
         return ev;
      }
   };

   std::string tlc_unescape(const std::string& line)
   {
      auto b = line.find("\", \"");
      auto e = line.rfind("\">>");
      if (b == std::string::npos or e == std::string::npos) return { };
      std::string out;
      for (std::size_t k = b + 4; k < e; ++k) {
         if (line[k] == '\\' and k + 1 < e) { out += line[k + 1]; ++k; }
         else out += line[k];
      }
      return out;
   }
   struct LastBeh {
      FILE* f = nullptr;
      LastBeh() { if (auto p = std::getenv("VERIF_LASTBEH")) f = std::fopen(p, "w"); }
      void note(const std::string& text)
      {
         if (f == nullptr) return;
         std::rewind(f);
         std::fwrite(text.data(), 1, text.size(), f);
         std::fputc('\n', f);
         std::fflush(f);
         if (ftruncate(fileno(f), static_cast<off_t>(text.size() + 1)) != 0) { }
      }
   };

   int do_replay()
   {
      std::ios::sync_with_stdio(false);
      std::string line;
      LastBeh lastbeh;
      long behaviours = 0, steps = 0, failed = 0, printed = 0;
      std::set<std::string> classes;
      std::map<std::string, long> fail_keys;
      std::string sample;
      while (std::getline(std::cin, line)) {
         std::string text = line.rfind("<<\"BEH\"", 0) == 0 ? tlc_unescape(line) : line;
         if (text.empty() or text[0] != '[') continue;
         Value beh = vj::parse(text);
         lastbeh.note(text);
         ++behaviours;
         if (sample.empty()) sample = text;
         Pools P { 2 };
         std::vector<std::string> want { "", "" };     // want[id] = hex content the specification gives to id
         std::size_t k = 0;
         for (auto& h : *beh.a) {
            ++k; ++steps;
            int lx = static_cast<int>(h.at("lx").as_int());
            auto w = h.at("w").as_str();
            auto bytes = vh::unhex(w);
            int before = static_cast<int>(P.strings.size());
            auto ev = P.intern_event(lx, bytes);
            int exp = static_cast<int>(h.at("r").as_int());
            std::string cls = exp >= before ? "fresh" : exp == 1 ? "empty" : "existing";
            cls += lx == 1 ? ":lx1" : ":lx2";
            classes.insert(cls + ":" + w);
            std::string why;
            if (ev.at("r").as_int() != exp) why = "identity";
            else if (ev.at("chars").as_str() != w) why = "content";
            if (why.empty()) {
               if (exp >= static_cast<int>(want.size())) want.resize(exp + 1);
               want[exp] = w;
               for (int id = 1; id < static_cast<int>(P.strings.size()) and why.empty(); ++id)
                  if (enc(P.strings[id]->characters()) != want[id]) why = "earlier-string-changed";
            }
            if (not why.empty()) {
               ++failed;
               auto key = why + ":" + cls;
               ++fail_keys[key];
               if (printed++ < 20) {
                  auto f = Value::object();
                  auto pre = Value::array();
                  for (std::size_t j = 0; j < k; ++j) pre.push((*beh.a)[j]);
                  f.set("key", key).set("step", static_cast<long>(k)).set("expected", h).set("got", ev).set("beh", pre);
                  std::cout << "FAIL " << vj::dump(f) << "\n";
               }
               break;
            }
         }
      }
      auto s = Value::object();
      auto fk = Value::object();
      for (auto& kv : fail_keys) fk.set(kv.first, kv.second);
      s.set("behaviours", behaviours).set("steps", steps).set("failed", failed).set("fail_keys", fk)
         .set("classes", static_cast<long>(classes.size())).set("sample", sample);
      std::cout << "SUMMARY " << vj::dump(s) << "\n";
      return 0;
   }

   const std::vector<std::string> reserved { "...", "=0", "C", "C++", "auto", "bool", "char", "char16_t", "char32_t",
      "char8_t", "class", "const", "consteval", "constexpr", "constinit", "default", "delete", "double", "enum", "explicit",
      "export", "extern", "false", "float", "friend", "inline", "int", "long", "long double", "long long", "mutable",
      "namespace", "nullptr", "private", "protected", "public", "register", "restrict", "short", "signed char", "static",
      "this", "thread_local", "true", "typedef", "typename", "union", "unsigned char", "unsigned int", "unsigned long",
      "unsigned long long", "unsigned short", "virtual", "void", "volatile", "wchar_t" };

   void emit(const Value& v) { std::cout << vj::dump(v) << "\n"; }

   // a word of `len` bytes, unique per (tag, len), over all byte values
   std::string make_word(std::size_t len, unsigned long tag)
   {
      std::string s(len, '\0');
      std::mt19937_64 g { tag * 1000003ull + len };
      for (std::size_t k = 0; k < len; ++k) s[k] = static_cast<char>(g() & 0xFF);
      if (len >= 8) for (int k = 0; k < 8; ++k) s[k] = static_cast<char>((tag >> (8 * k)) & 0xFF);
      return s;
   }

   int do_record(int argc, char** argv)
   {
      unsigned long seed = 1;
      int nrandom = 2000;
      bool big = false;
      for (int k = 2; k + 1 < argc; k += 2) {
         std::string f = argv[k], v = argv[k + 1];
         if (f == "--seed") seed = std::stoul(v);
         else if (f == "--n") nrandom = std::stoi(v);
         else if (f == "--big") big = v == "1";
      }
      std::ios::sync_with_stdio(false);
      std::mt19937_64 g { seed };
      auto below = [&](unsigned long n) { return static_cast<unsigned long>(g() % n); };
      // -- run 1: reserved words and their neighbours, byte values, NULs, unterminated sources; two lexicons
      {
         std::cout << "{\"e\":\"reset\"}\n";
         Pools P { 2 };
         for (int lx : {1, 2})
            for (auto& w : reserved) emit(P.intern_event(lx, w));
         for (auto& w : reserved) {
            std::vector<std::string> near;
            near.push_back(w.substr(0, w.size() - 1));
            near.push_back(w.substr(1));
            near.push_back(w + "x");
            near.push_back(w + std::string(1, '\0'));
            near.push_back(std::string(1, '\0') + w);
            for (std::size_t k = 0; k < w.size(); ++k) {
               auto e = w; e[k] = static_cast<char>(e[k] + 1); near.push_back(e);
               auto d = w; d[k] = static_cast<char>(d[k] ^ 0x20); near.push_back(d);
            }
            for (auto& n : near) emit(P.intern_event(1 + static_cast<int>(below(2)), n));
         }
         for (int b = 0; b < 256; ++b) {
            std::string one(1, static_cast<char>(b));
            emit(P.intern_event(1, one));
            emit(P.intern_event(1, one + one));
         }
         for (int b = 0; b < 256; ++b) emit(P.intern_event(1, std::string(1, static_cast<char>(b))));   // again: same nodes
         for (std::string w : { std::string("a\0b", 3), std::string("\0", 1), std::string("\0\0", 2), std::string("int\0", 4),
                                std::string("\0int", 4), std::string("a\0", 2), std::string("a", 1), std::string("a\0c", 3) })
            for (int lx : {1, 2, 1}) emit(P.intern_event(lx, w));
         // sources that are not NUL-terminated: windows into one buffer
         std::string buf = "intconstantinopleunsigned long longer";
         for (std::size_t a = 0; a < buf.size(); a += 3)
            for (std::size_t n : {0u, 1u, 3u, 5u, 8u, 18u})
               if (a + n <= buf.size()) {
                  auto& s = P.intern(1, buf.data() + a, n);
                  auto ev = Value::object();
                  ev.set("e", "intern").set("lx", 1).set("w", enc(std::string_view(buf.data() + a, n))).set("r", P.reg(s))
                     .set("chars", enc(s.characters())).set("size", static_cast<long>(s.size()));
                  emit(ev);
               }
         // words with equal hash codes (the 64-bit murmur of libstdc++ mixes each 8-byte block by a bijection, so for any
         // first block a second block with the same final code exists): a family of six 16-byte words, interned in every
         // order of revisiting; skipped, and said so, where the standard library hashes differently
         {
            using u64 = std::uint64_t;
            constexpr u64 mul = (u64{0xc6a4a793} << 32) + u64{0x5bd1e995};
            auto mix = [](u64 v) { return v ^ (v >> 47); };
            u64 inv = mul;
            for (int i = 0; i < 6; ++i) inv *= 2 - mul * inv;
            auto f = [&](u64 x) { return mix(x * mul) * mul; };
            auto finv = [&](u64 y) { return mix(y * inv) * inv; };
            auto load = [](const char* p) { u64 v; std::memcpy(&v, p, 8); return v; };
            const u64 h0 = u64{0xc70f6907} ^ (u64{16} * mul);
            const std::string a = "first_colliding_";
            std::vector<std::string> family { a };
            for (auto first : { "another_", "thirdone", "\0\0\0\0\0\0\0\1", "int\0int\0", "zzzzzzzz" }) {
               std::string head(first, 8);
               u64 fb2 = f(load(a.data() + 8)) ^ ((h0 ^ f(load(a.data()))) * mul) ^ ((h0 ^ f(load(head.data()))) * mul);
               u64 second = finv(fb2);
               std::string b = head + std::string(8, '\0');
               std::memcpy(b.data() + 8, &second, 8);
               family.push_back(b);
            }
            const std::hash<std::u8string_view> hash { };
            auto code = [&](const std::string& w) { return hash(std::u8string_view(reinterpret_cast<const char8_t*>(w.data()), w.size())); };
            bool same = sizeof(std::size_t) == 8;
            for (auto& w : family) same = same and code(w) == code(a);
            auto note = Value::object();
            note.set("e", "note").set("what", "equal-hash family").set("built", same).set("words", static_cast<long>(family.size()));
            std::cerr << vj::dump(note) << "\n";
            if (same) {
               for (std::size_t k = 0; k < family.size(); ++k)
                  for (std::size_t j = 0; j <= k; ++j) emit(P.intern_event(1, family[k - j]));            // newest first, back to the oldest
               for (std::size_t k = 0; k < family.size(); ++k) emit(P.intern_event(1, family[k]));       // oldest first
               for (auto& w : family) { emit(P.intern_event(2, w)); emit(P.intern_event(2, family[0])); }
            }
         }
         for (int id = 1; id < static_cast<int>(P.strings.size()); ++id) emit(P.observe_event(id));
      }
      // -- run 2: arena boundaries (inline header, 16-byte granules, pool capacity, oversize)
      {
         std::cout << "{\"e\":\"reset\"}\n";
         Pools P { 1 };
         std::vector<std::size_t> lens { 0, 1, 7, 8, 9, 15, 16, 17, 23, 24, 25, 39, 40, 41, 63, 64, 65, 255, 256, 4095, 4096,
            65527, 65528, 65529, 65535, 65536, 65537, 65543, 65544, 65545 };
         unsigned long tag = seed * 7919;
         for (auto n : lens) { emit(P.intern_event(1, make_word(n, ++tag))); emit(P.observe_event(1 + static_cast<int>(below(P.strings.size() - 1)))); }
         // fill the current pool to within a few granules of its end, several times, with different tail lengths
         const std::size_t pool_bytes = 16u * 65536u;
         for (int round = 0; round < (big ? 6 : 3); ++round) {
            std::size_t used = 0;
            while (used + 70000 < pool_bytes) { auto n = 30000 + below(30000); emit(P.intern_event(1, make_word(n, ++tag))); used += n + 24; }
            for (std::size_t tail : { std::size_t(4000), std::size_t(3000 + below(2000)), std::size_t(8), std::size_t(24), std::size_t(100000 + below(5000)), std::size_t(9) })
               { emit(P.intern_event(1, make_word(tail, ++tag))); emit(P.observe_event(1 + static_cast<int>(below(P.strings.size() - 1)))); }
         }
         std::vector<std::size_t> bigs { 1048560, 1048568, 1048575, 1048576, 1048577, 1048584 };
         bigs.push_back(2000000);
         if (big) bigs.push_back(3 * 1048576 + 5);
         for (auto n : bigs) {
            emit(P.intern_event(1, make_word(n, ++tag)));
            emit(P.intern_event(1, make_word(8 + below(64), ++tag)));
            emit(P.observe_event(1 + static_cast<int>(below(P.strings.size() - 1))));
         }
         for (auto n : bigs) emit(P.intern_event(1, make_word(n, tag - 2 * (bigs.size() - 1) + 0)));   // mostly repeats
         for (int id = 1; id < static_cast<int>(P.strings.size()); ++id) emit(P.observe_event(id));
      }
      // -- run 3: random history with repeats, two lexicons, re-observation after every step
      {
         std::cout << "{\"e\":\"reset\"}\n";
         Pools P { 2 };
         std::vector<std::string> vocab;
         for (int k = 0; k < nrandom / 3 + 5; ++k) {
            auto len = below(100) < 80 ? below(20) : below(100) < 90 ? below(300) : below(70000);
            vocab.push_back(below(100) < 10 ? reserved[below(reserved.size())] : make_word(len, seed * 31 + k));
         }
         for (int k = 0; k < nrandom; ++k) {
            emit(P.intern_event(1 + static_cast<int>(below(2)), vocab[below(vocab.size())]));
            emit(P.observe_event(1 + static_cast<int>(below(P.strings.size() - 1))));
         }
         for (int id = 1; id < static_cast<int>(P.strings.size()); ++id) emit(P.observe_event(id));
      }
      return 0;
   }

   // sequences of lengths -> trace
   int do_lengths()
   {
      std::ios::sync_with_stdio(false);
      std::string line;
      unsigned long tag = 1;
      while (std::getline(std::cin, line)) {
         std::string text = line.rfind("<<\"BEH\"", 0) == 0 ? tlc_unescape(line) : line;
         if (text.empty() or text[0] != '[') continue;
         Value seq = vj::parse(text);
         std::cout << "T {\"e\":\"reset\"}\n";
         Pools P { 1 };
         for (auto& n : *seq.a) {
            std::cout << "T " << vj::dump(P.intern_event(1, make_word(static_cast<std::size_t>(n.as_int()), ++tag))) << "\n";
            for (int id = 1; id < static_cast<int>(P.strings.size()); ++id) std::cout << "T " << vj::dump(P.observe_event(id)) << "\n";
         }
      }
      std::cout << "SUMMARY {\"behaviours\":0,\"steps\":0,\"failed\":0,\"fail_keys\":{},\"classes\":0,\"sample\":\"\"}\n";
      return 0;
   }
}

int main(int argc, char** argv)
{
   std::string mode = argc > 1 ? argv[1] : "";
   try {
      if (mode == "replay") return do_replay();
      if (mode == "record") return do_record(argc, argv);
      if (mode == "lengths") return do_lengths();
   }
   catch (const std::logic_error& e) {
      // the library throws logic errors, the harness run-time errors: one that arrives here escaped from a call of the library
      // where the harness expected none -- recorded like a crash (a terminal event), not as a failure of the harness
      std::cout.flush();
      std::cerr << "exception of the library escaped: " << e.what() << "\n";
      std::abort();
   }
   catch (const std::exception& e) {
      std::cout << "HARNESS-ERROR " << e.what() << "\n";
      return 2;
   }
   return 2;
}
