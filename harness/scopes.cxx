// Harness for spec/IprScopes*.tla (property C07).
//   scopes replay <NNames> <NT>            stdin: TLC behaviours with the full predicted observation per step
//   scopes record --seed S --runs R --len L --names N --types T     stdout: ndjson trace (binding B)
#include <algorithm>
#include <cstdio>
#include <cstdlib>
#include <iostream>
#include <random>
#include <set>
#include <unistd.h>
#include "world.hpp"

using vj::Value;
namespace impl = ipr::impl;

namespace {
   struct Stage {
      impl::Lexicon lex;
      impl::Translation_unit unit { lex };
      int nnames, nt;
      std::vector<const ipr::Name*> names { nullptr };       // 1-based: identifiers, then names of built-in types
      std::vector<const ipr::Type*> types { nullptr };       // 1-based: built-in, function, forall, the enum
      std::vector<const ipr::Expr*> inits { nullptr };       // initialiser of type t for aliases
      impl::Handler* handler = nullptr;                      // scope 6: the region of this handler's exception parameter
      impl::Scope* hetero[3] { };
      impl::Class* klass = nullptr;
      impl::Mapping* mapping = nullptr;
      impl::Enum* enumeration = nullptr;
      impl::Class* derived = nullptr;
      std::vector<const ipr::Decl*> decls { nullptr };
      std::map<const ipr::Node*, int> decl_id, name_id, type_id;

      Stage(int nn, int t) : nnames{nn}, nt{t}
      {
         // (the second and fourth are the types of user-defined types: an alias of that type is initialised by a class / a namespace)
         const ipr::Type* builtins[] = { &lex.int_type(), &lex.class_type(), &lex.char_type(), &lex.namespace_type(), &lex.bool_type(),
            &lex.double_type(), &lex.long_type(), &lex.float_type(), &lex.short_type(), &lex.uint_type() };
         if (t > 10) throw vh::HarnessError("at most 10 built-in types");
         for (int k = 0; k < nn; ++k) names.push_back(&lex.get_identifier(vh::u8("n" + std::to_string(k))));
         for (int k = 0; k < t; ++k) names.push_back(&builtins[k]->name());
         for (int k = 0; k < t; ++k) types.push_back(builtins[k]);
         impl::Warehouse<ipr::Type> none, one;
         one.push_back(lex.typename_type());
         for (int k = 0; k < t; ++k) types.push_back(&lex.get_function(lex.get_product(none), *builtins[k]));
         for (int k = 0; k < t; ++k) types.push_back(&lex.get_forall(lex.get_product(one), *builtins[k]));
         enumeration = lex.make_enum(*unit.global_region(), ipr::Enum::Kind::Scoped);
         types.push_back(enumeration);
         for (int k = 0; k < t; ++k) {
            if (builtins[k] == &lex.class_type()) inits.push_back(lex.make_class(*unit.global_region()));
            else if (builtins[k] == &lex.namespace_type()) inits.push_back(lex.make_namespace(*unit.global_region()));
            else inits.push_back(lex.make_literal(*builtins[k], u8"0"));
         }
         klass = lex.make_class(*unit.global_region());
         derived = lex.make_class(*unit.global_region());
         mapping = lex.make_mapping(*unit.global_region(), ipr::Mapping_level{0});
         hetero[1] = unit.global_scope();
         hetero[2] = &klass->body.scope;
         for (std::size_t k = 1; k < names.size(); ++k) name_id[names[k]] = static_cast<int>(k);
         for (std::size_t k = 1; k < types.size(); ++k) type_id[types[k]] = static_cast<int>(k);
      }

      const ipr::Scope& scope(int s) const
      {
         switch (s) {
         case 1: case 2: return *hetero[s];
         case 3: return mapping->parameters().region().bindings();
         case 4: return enumeration->region().bindings();
         case 5: return derived->base_subobjects.bindings();
         case 6: if (handler != nullptr) return static_cast<const ipr::Handler&>(*handler).body().region().enclosing().bindings(); break;
         }
         throw vh::HarnessError("bad scope");
      }

      int did(const ipr::Decl& d) const
      {
         auto it = decl_id.find(&d);
         return it == decl_id.end() ? -2 : it->second;
      }
      int nid(const ipr::Name& n) const { auto it = name_id.find(&n); return it == name_id.end() ? -2 : it->second; }
      int tid(const ipr::Type& t) const { auto it = type_id.find(&t); return it == type_id.end() ? -2 : it->second; }

      int declare(int s, const std::string& kind, int n, int t)
      {
         // the last thing asked of the scope before it grows is a position one past its end (refused)
         try { auto& el = scope(s).elements(); (void)did(*el.position(el.size())); } catch (...) { }     // (a handler region does not exist before its handler)
         const ipr::Decl* d = nullptr;
         auto& nm = *names.at(n);
         auto& ty = *types.at(t);
         if (s == 1 or s == 2) {
            auto sc = hetero[s];
            if (kind == "var") d = sc->make_var(nm, ty);
            else if (kind == "field") d = sc->make_field(nm, ty);
            else if (kind == "bitfield") d = sc->make_bitfield(nm, ty);
            else if (kind == "typedecl") d = sc->make_typedecl(nm, ty);
            else if (kind == "alias") d = sc->make_alias(nm, *inits.at(t));
            else if (kind == "fundecl") d = sc->make_fundecl(nm, dynamic_cast<const ipr::Function&>(ty));
            else if (kind == "ptemplate") d = sc->make_primary_template(nm, dynamic_cast<const ipr::Forall&>(ty));
            else if (kind == "stemplate") d = sc->make_secondary_template(nm, dynamic_cast<const ipr::Forall&>(ty));
         }
         else if (s == 3 and kind == "param") d = mapping->param(nm, ty);
         else if (s == 4 and kind == "enumerator") d = enumeration->add_member(nm);
         else if (s == 5 and kind == "base") d = derived->declare_base(ty);
         else if (s == 6 and kind == "ehparam") {
            // the exception parameter comes with the handler; its region is the scope observed as scope 6
            handler = lex.make_block(*unit.global_region())->new_handler(nm, ty);
            d = &static_cast<const ipr::Handler&>(*handler).exception();
         }
         if (d == nullptr) throw vh::HarnessError("cannot declare " + kind + " in scope " + std::to_string(s));
         if (decl_id.count(d)) return -3;                 // an existing declaration was returned
         decls.push_back(d);
         int id = decl_id[d] = static_cast<int>(decls.size()) - 1;
         // specifiers of its own, a function of its identity (see IprScopes!Obs)
         if (s == 1 or s == 2) {
            ipr::Specifiers sp { };
            int bits = id % 7 + 1;
            for (int b = 0; b < 3; ++b) if (bits & (1 << b)) sp |= spec_menu(b);
            set_specifiers(const_cast<ipr::Decl*>(d), sp);
            // one declaration in three is recorded as the definition of its declaration set (often not the first of the set):
            // what a scope answers about masters, declaration sets and selection does not depend on which member is the definition
            if (id % 3 == 2) {
               auto md = const_cast<ipr::Decl*>(d);
#define TRY(K) if (auto p = dynamic_cast<impl::K*>(md)) { p->decl_data.master_data->def = p; }
               TRY(Var) TRY(Field) TRY(Bitfield) TRY(Typedecl) TRY(Fundecl)
#undef TRY
            }
         }
         return id;
      }

      ipr::Specifiers spec_menu(int b) const
      {
         const ipr::Lexicon& il = lex;
         return b == 0 ? il.static_specifier() : b == 1 ? il.inline_specifier() : il.virtual_specifier();
      }
      static void set_specifiers(ipr::Decl* d, ipr::Specifiers sp)
      {
#define TRY(K) if (auto p = dynamic_cast<impl::K*>(d)) { p->specifiers(sp); return; }
         TRY(Var) TRY(Field) TRY(Bitfield) TRY(Typedecl) TRY(Alias) TRY(Fundecl) TRY(Template)
#undef TRY
         throw vh::HarnessError("declaration without settable specifiers");
      }
      // what a template declaration answers for its primary template when first observed; it must go on answering that
      mutable std::map<const ipr::Decl*, const ipr::Template*> first_primary;
      long spec_value(const ipr::Decl& d) const
      {
         long v = 0;
         if (auto t = dynamic_cast<const ipr::Template*>(&d)) {
            const ipr::Template* p = nullptr;
            try { p = &t->primary_template(); } catch (const std::logic_error&) { }
            auto it = first_primary.find(&d);
            if (it == first_primary.end()) first_primary[&d] = p;
            else if (it->second != p) v |= 128;            // the answer changed
         }
         auto sp = d.specifiers();
         for (int b = 0; b < 3; ++b) if (ipr::implies(sp, spec_menu(b))) v |= 1 << b;
         if ((sp ^ (((v & 1) ? spec_menu(0) : ipr::Specifiers{}) | ((v & 2) ? spec_menu(1) : ipr::Specifiers{}) | ((v & 4) ? spec_menu(2) : ipr::Specifiers{})))
             != ipr::Specifiers{}) v |= 64;          // something else in the set
         return v;
      }

      template<class F> static Value guarded(F f)
      {
         try { return f(); }
         catch (const std::logic_error&) { return Value{-1}; }
      }

      static Value position_of(const ipr::Decl& d, long index)
      {
         if (auto p = dynamic_cast<const ipr::Parameter*>(&d)) return Value{static_cast<long>(p->position())};
         if (auto e = dynamic_cast<const ipr::Enumerator*>(&d)) return Value{static_cast<long>(e->position())};
         if (auto b = dynamic_cast<const ipr::Base_type*>(&d)) return Value{static_cast<long>(b->position())};
         return Value{index};
      }

      bool with_init = true;        // replay: yes; recorded traces: no (see IprScopesTrace)
      Value decl_obs(const ipr::Decl& d, long index)
      {
         auto o = Value::object();
         o.set("n", guarded([&] { return Value{nid(d.name())}; }));
         o.set("t", guarded([&] { return Value{tid(d.type())}; }));
         o.set("master", guarded([&] { return Value{did(d.master())}; }));
         o.set("declset", guarded([&] {
            auto a = Value::array();
            for (auto& x : d.decl_set()) a.push(did(x));
            return a;
         }));
         o.set("pos", guarded([&] { return position_of(d, index); }));
         o.set("spec", guarded([&] { return Value{spec_value(d)}; }));
         if (with_init) o.set("init", guarded([&] {
            auto a = dynamic_cast<const ipr::Alias*>(&d);
            if (a == nullptr) return Value{0};
            auto& e = a->initializer().get();
            for (std::size_t k = 1; k < inits.size(); ++k) if (inits[k] == &e) return Value{static_cast<long>(k)};
            return Value{-2};
         }));
         return o;
      }

      Value select_one(const ipr::Scope& sc, int n, int t)
      {
         return guarded([&] {
            auto ovl = sc[*names.at(n)];
            if (not ovl.is_valid()) return Value{0};
            auto d = ovl.get()[*types.at(t)];
            return d.is_valid() ? Value{did(d.get())} : Value{0};
         });
      }

      // "is the name taken?", asked just before a declaration is entered
      Value pre_query(int s, int n, int t)
      {
         if (s == 6 and handler == nullptr) { auto a = Value::array(); a.push(0).push(0); return a; }     // no handler yet: nothing is bound
         auto& sc = scope(s);
         auto a = Value::array();
         a.push(guarded([&] { return Value{sc[*names.at(n)].is_valid() ? 1 : 0}; })).push(select_one(sc, n, t));
         return a;
      }

      // full observation of a scope, in the shape of Obs(ds, s) of the specification
      Value obs(int s, bool full)
      {
         auto& sc = scope(s);
         auto o = Value::object();
         auto el = Value::array(), dl = Value::array();
         long i = 0;
         // the newest declaration is asked for first (the previous observation ended with a refused position), then all in order
         long newest = 0, newest_type = 0;
         const std::size_t have = sc.elements().size();
         bool newest_ok = true;
         if (have > 0) {
            try {
               newest = did(*sc.elements().position(have - 1));
               if (auto p = dynamic_cast<const ipr::Product*>(&sc.type())) newest_type = tid(*p->elements().position(have - 1));
            }
            catch (const std::logic_error&) { newest_ok = false; }
         }
         for (auto& d : sc.elements()) { el.push(did(d)); dl.push(decl_obs(d, i)); ++i; }
         if (static_cast<long>(sc.elements().size()) != i or static_cast<long>(sc.size()) != i) el.push(-9);
         if (have > 0 and (not newest_ok or el.size() < have or el.at(have - 1).as_int() != newest)) el.push(-8);
         if (have > 0 and newest_ok and dynamic_cast<const ipr::Product*>(&sc.type()) != nullptr
             and newest_type != tid(*dynamic_cast<const ipr::Product*>(&sc.type())->elements().position(have - 1))) el.push(-7);
         try { (void)did(*sc.elements().position(have)); el.push(-6); } catch (const std::logic_error&) { }      // one past the end: refused
         o.set("elements", el);
         o.set("types", guarded([&] {
            auto a = Value::array();
            auto p = dynamic_cast<const ipr::Product*>(&sc.type());
            if (p == nullptr) return Value{-1};
            for (auto& t : p->elements()) a.push(tid(t));
            if (p->size() != a.size()) a.push(-9);
            return a;
         }));
         o.set("decls", dl);
         if (full) {
            auto lk = Value::array(), sel = Value::array();
            for (std::size_t n = 1; n < names.size(); ++n) {
               lk.push(guarded([&] { return Value{sc[*names[n]].is_valid() ? 1 : 0}; }));
               auto row = Value::array();
               for (std::size_t t = 1; t < types.size(); ++t) row.push(select_one(sc, static_cast<int>(n), static_cast<int>(t)));
               sel.push(row);
            }
            o.set("lookup", lk).set("select", sel);
         }
         return o;
      }
   };

   std::string tlc_unescape(const std::string& line)
   {
      auto b = line.find("\", \"");
      auto e = line.rfind("\">>");
      if (b == std::string::npos or e == std::string::npos) return { };
      std::string out;
      for (std::size_t k = b + 4; k < e; ++k) {
         if (line[k] == '\\' and k + 1 < e) { out += line[k + 1]; ++k; }
         else out += line[k];
      }
      return out;
   }
   struct LastBeh {
      FILE* f = nullptr;
      LastBeh() { if (auto p = std::getenv("VERIF_LASTBEH")) f = std::fopen(p, "w"); }
      void note(const std::string& text)
      {
         if (f == nullptr) return;
         std::rewind(f);
         std::fwrite(text.data(), 1, text.size(), f);
         std::fputc('\n', f);
         std::fflush(f);
         if (ftruncate(fileno(f), static_cast<off_t>(text.size() + 1)) != 0) { }
      }
   };

   // which part of the observation differs first (for the failure key)
   std::string first_difference(const Value& exp, const Value& got)
   {
      for (auto f : {"elements", "types", "lookup", "select"})
         if (exp.find(f) and got.find(f) and not vj::equal(exp.at(f), got.at(f))) return f;
      auto& ed = exp.at("decls");
      auto& gd = got.at("decls");
      if (ed.size() != gd.size()) return "decls";
      for (std::size_t k = 0; k < ed.size(); ++k)
         for (auto f : {"n", "t", "master", "declset", "pos", "init", "spec"})
            if (not vj::equal(ed.at(k).at(f), gd.at(k).at(f))) return f;
      return "other";
   }

   int do_replay(int nn, int nt)
   {
      std::ios::sync_with_stdio(false);
      std::string line;
      LastBeh lastbeh;
      long behaviours = 0, steps = 0, failed = 0, printed = 0;
      std::set<std::string> classes;
      std::map<std::string, long> fail_keys;
      std::string sample;
      while (std::getline(std::cin, line)) {
         std::string text = line.rfind("<<\"BEH\"", 0) == 0 ? tlc_unescape(line) : line;
         if (text.empty() or text[0] != '[') continue;
         Value beh = vj::parse(text);
         lastbeh.note(text);
         ++behaviours;
         if (sample.empty()) sample = text;
         Stage st { nn, nt };
         std::size_t k = 0;
         for (auto& h : *beh.a) {
            ++k; ++steps;
            auto& ev = h.at("ev");
            int s = static_cast<int>(ev.at("s").as_int()), n = static_cast<int>(ev.at("n").as_int()),
                t = static_cast<int>(ev.at("t").as_int());
            auto kind = ev.at("k").as_str();
            auto pre = st.pre_query(s, n, t);
            int r = st.declare(s, kind, n, t);
            auto got = st.obs(s, true);
            // class: kind x (first with this name-type / redeclaration / same name other type)
            auto& ed = h.at("o").at("decls");
            auto& mine = ed.at(ed.size() - 1);
            std::string cls = kind + (mine.at("master").as_int() != ev.at("r").as_int() ? ":redecl"
                                      : mine.at("declset").size() > 1 ? ":?" : ":first");
            long same_name = 0;
            for (auto& d : *ed.a) same_name += d.at("n").as_int() == n;
            cls += same_name > 1 ? ":overloaded" : ":alone";
            classes.insert(cls);
            std::string why;
            if (r != ev.at("r").as_int()) why = "identity";
            else if (not vj::equal(pre, h.at("pre"))) why = "lookup";
            else if (not vj::equal(got, h.at("o"))) why = first_difference(h.at("o"), got);
            if (not why.empty()) {
               ++failed;
               auto key = kind + ":" + why;
               ++fail_keys[key];
               if (printed++ < 20) {
                  auto f = Value::object();
                  auto pre = Value::array();
                  for (std::size_t j = 0; j < k; ++j) pre.push((*beh.a)[j].at("ev"));
                  f.set("key", key).set("step", static_cast<long>(k)).set("expected", h.at("o")).set("got", got)
                     .set("r", r).set("beh", pre);
                  std::cout << "FAIL " << vj::dump(f) << "\n";
               }
               break;
            }
         }
      }
      auto s = Value::object();
      auto fk = Value::object();
      for (auto& kv : fail_keys) fk.set(kv.first, kv.second);
      s.set("behaviours", behaviours).set("steps", steps).set("failed", failed).set("fail_keys", fk)
         .set("classes", static_cast<long>(classes.size())).set("sample", sample);
      std::cout << "SUMMARY " << vj::dump(s) << "\n";
      return 0;
   }

   int do_record(int argc, char** argv)
   {
      unsigned long seed = 1;
      int runs = 3, len = 120, nn = 12, nt = 6;
      for (int k = 2; k + 1 < argc; k += 2) {
         std::string f = argv[k], v = argv[k + 1];
         if (f == "--seed") seed = std::stoul(v);
         else if (f == "--runs") runs = std::stoi(v);
         else if (f == "--len") len = std::stoi(v);
         else if (f == "--names") nn = std::stoi(v);
         else if (f == "--types") nt = std::stoi(v);
      }
      std::mt19937_64 g { seed };
      auto below = [&](int n) { return static_cast<int>(g() % static_cast<unsigned long>(n)); };
      const std::vector<std::string> bk { "var", "field", "bitfield", "typedecl", "alias" };
      for (int run = 0; run < runs; ++run) {
         std::cout << "{\"k\":\"reset\",\"s\":0,\"n\":0,\"t\":0,\"r\":0}\n";
         Stage st { nn, nt };
         st.with_init = false;
         std::map<std::pair<int, int>, std::string> kind_of[3];      // (n,t) -> kind, per hetero scope
         std::set<int> used[7];
         bool handler_made = false;
         for (int k = 0; k < len; ++k) {
            int s = below(100) < 70 ? 1 + below(2) : 3 + below(4);
            std::string kind;
            int n = 1 + below(nn), t = 1 + below(nt);
            if (s <= 2) {
               int c = below(100);
               if (c < 60) kind = bk[below(5)];
               else if (c < 80) { kind = "fundecl"; t += nt; }
               else { kind = below(2) ? "ptemplate" : "stemplate"; t += 2 * nt; }
               auto it = kind_of[s].find({n, t});
               if (it != kind_of[s].end()) kind = it->second; else kind_of[s][{n, t}] = kind;
            }
            else if (s == 3) kind = "param";
            else if (s == 4) { kind = "enumerator"; t = 3 * nt + 1; }
            else if (s == 5) { kind = "base"; n = nn + t; }
            else { if (handler_made) continue; kind = "ehparam"; handler_made = true; }
            if (s >= 3) { if (used[s].count(n)) continue; used[s].insert(n); }
            auto ev = Value::object();
            auto pre = st.pre_query(s, n, t);
            int r = st.declare(s, kind, n, t);
            ev.set("k", kind).set("s", s).set("n", n).set("t", t).set("r", r).set("pre", pre).set("o", st.obs(s, false));
            // sampled queries: lookups and selections, hits and misses
            auto qs = Value::array();
            for (int j = 0; j < 6; ++j) {
               int qn = j == 0 ? n : 1 + below(nn + nt), qt = j <= 1 ? t : 1 + below(3 * nt + 1);
               auto q = Value::array();
               auto& sc = st.scope(s);
               q.push(qn).push(qt).push(Stage::guarded([&] { return Value{sc[*st.names.at(qn)].is_valid() ? 1 : 0}; }))
                  .push(st.select_one(sc, qn, qt));
               qs.push(q);
            }
            ev.set("q", qs);
            std::cout << vj::dump(ev) << "\n";
         }
      }
      return 0;
   }
}

int main(int argc, char** argv)
{
   std::string mode = argc > 1 ? argv[1] : "";
   try {
      if (mode == "replay") return do_replay(argc > 2 ? std::atoi(argv[2]) : 3, argc > 3 ? std::atoi(argv[3]) : 2);
      if (mode == "record") return do_record(argc, argv);
   }
   catch (const std::logic_error& e) {
      // the library throws logic errors, the harness run-time errors: one that arrives here escaped from a call of the library
      // where the harness expected none -- recorded like a crash (a terminal event), not as a failure of the harness
      std::cout.flush();
      std::cerr << "exception of the library escaped: " << e.what() << "\n";
      std::abort();
   }
   catch (const std::exception& e) {
      std::cout << "HARNESS-ERROR " << e.what() << "\n";
      return 2;
   }
   return 2;
}
