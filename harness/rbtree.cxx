// Harness for spec/RBTree*.tla (property C08): drives util::rb_tree::container<T> (owning) and
// util::rb_tree::chain<N> (intrusive) and reads their shape through classes derived from the protected core.
//   rbtree replay owning|chain      stdin: TLC behaviours with predicted shapes (binding A)
//   rbtree record --seed S --max N  stdout: ndjson trace of long/adversarial sequences (binding B)
#include <algorithm>
#include <cstdio>
#include <cstdlib>
#include <unistd.h>
#include <deque>
#include <iostream>
#include <map>
#include <memory>
#include <random>
#include <set>
#include <sstream>
#include <ipr/impl>
#include "json.hpp"

using vj::Value;
namespace rb = ipr::util::rb_tree;

namespace {
   // Keys are (rank, payload): the rank is what the trace shows; the payload is what the comparator looks at.
   struct IntCmp {
      int operator()(int stored, int key) const { return stored < key ? -1 : (stored > key ? 1 : 0); }
   };

   template<class NodeT, class KeyOf>
   struct Shape {
      std::map<const NodeT*, int> index;
      std::vector<const NodeT*> nodes;
      void number(const NodeT* n)
      {
         if (n == nullptr) return;
         // iterative walk; guards against cycles by the visited set
         std::vector<const NodeT*> stack { n };
         std::set<const NodeT*> seen;
         std::vector<const NodeT*> found;
         while (not stack.empty()) {
            auto x = stack.back();
            stack.pop_back();
            if (x == nullptr or seen.count(x)) continue;
            seen.insert(x);
            if (not index.count(x)) found.push_back(x);
            stack.push_back(const_cast<NodeT*>(x)->left());
            stack.push_back(const_cast<NodeT*>(x)->right());
         }
         for (auto x : found) { nodes.push_back(x); index[x] = static_cast<int>(nodes.size()); }
      }
      int id(const NodeT* n) const
      {
         if (n == nullptr) return 0;
         auto it = index.find(n);
         return it == index.end() ? -1 : it->second;
      }
      Value dump(const NodeT* root, KeyOf keyof)
      {
         number(root);
         auto t = Value::object();
         auto key = Value::array(), left = Value::array(), right = Value::array(), parent = Value::array(),
              red = Value::array();
         for (auto n : nodes) {
            auto m = const_cast<NodeT*>(n);
            key.push(keyof(*n));
            left.push(id(m->left()));
            right.push(id(m->right()));
            parent.push(id(m->parent()));
            red.push(n->color == rb::Color::Red);
         }
         t.set("root", id(root)).set("key", key).set("left", left).set("right", right).set("parent", parent).set("red", red);
         return t;
      }
   };

   // A tree under test, behind one interface for both flavours and all comparators.
   struct Tree {
      virtual ~Tree() = default;
      virtual int insert(int rank) = 0;            // returns the rank carried by the element returned
      virtual bool find(int rank) = 0;
      virtual long size() = 0;
      virtual Value shape() = 0;
      virtual bool owning() const = 0;
   };

   // -- owning flavour, integer keys
   struct OwnInt : Tree {
      struct Probe : rb::container<int> { auto r() const { return root; } } c;
      Shape<rb::node<int>, int (*)(const rb::node<int>&)> sh;
      int insert(int k) override { return *c.insert(k, IntCmp{}); }
      bool find(int k) override { return c.find(k, IntCmp{}) != nullptr; }
      long size() override { return c.size(); }
      Value shape() override { return sh.dump(c.r(), +[](const rb::node<int>& n) { return n.data; }); }
      bool owning() const override { return true; }
   };

   // -- owning flavour, keys far apart, compared by a comparator whose result is wider than int (a signed difference of 64-bit
   //    values: any negative / zero / positive answer is an ordering; differences here are multiples of 2^31, so they are 0 or of
   //    the other sign when cut to 32 bits)
   struct WideCmp {
      long long operator()(long long stored, long long key) const { return stored - key; }
   };
   struct OwnWide : Tree {
      struct Probe : rb::container<long long> { auto r() const { return root; } } c;
      using N = rb::node<long long>;
      Shape<N, int (*)(const N&)> sh;
      static long long spread(int k) { return static_cast<long long>(k) << 31; }
      int insert(int k) override { return static_cast<int>(*c.insert(spread(k), WideCmp{}) >> 31); }
      bool find(int k) override { return c.find(spread(k), WideCmp{}) != nullptr; }
      long size() override { return c.size(); }
      Value shape() override { return sh.dump(c.r(), +[](const N& n) { return static_cast<int>(n.data >> 31); }); }
      bool owning() const override { return true; }
   };

   // -- owning flavour, keys ordered by address (the comparator ipr uses for nodes): rank = index in a pool
   struct Cell { int rank; };
   struct AddrElem { const Cell* cell; };
   struct AddrCmp {
      int operator()(const AddrElem& stored, const Cell* key) const
      { return ipr::impl::compare(stored.cell, key); }
   };
   struct OwnAddr : Tree {
      std::vector<Cell> pool;
      struct Probe : rb::container<AddrElem> { auto r() const { return root; } } c;
      using N = rb::node<AddrElem>;
      Shape<N, int (*)(const N&)> sh;
      // the rank of a cell is its place in the order the library's own comparator gives the cells (whichever total order on
      // addresses that is: the property is about trees over the comparator's order, not about addresses going up)
      std::vector<const Cell*> by_rank;
      explicit OwnAddr(int n) : pool(n + 2)
      {
         for (auto& c : pool) by_rank.push_back(&c);
         std::sort(by_rank.begin(), by_rank.end(), [](const Cell* a, const Cell* b) { return ipr::impl::compare(a, b) < 0; });
         for (std::size_t r = 0; r < by_rank.size(); ++r) const_cast<Cell*>(by_rank[r])->rank = static_cast<int>(r);
      }
      int insert(int k) override { return c.insert(by_rank.at(k), AddrCmp{})->cell->rank; }
      bool find(int k) override { return c.find(by_rank.at(k), AddrCmp{}) != nullptr; }
      long size() override { return c.size(); }
      Value shape() override { return sh.dump(c.r(), +[](const N& n) { return n.data.cell->rank; }); }
      bool owning() const override { return true; }
   };

   // -- owning flavour, lexicographic comparison of sequences (as for products and sums)
   struct SeqElem { std::vector<int> seq; int rank; };
   struct SeqKey { const std::vector<int>* seq; int rank; };
   struct SeqCmp {
      int operator()(const SeqElem& stored, const SeqKey& key) const
      {
         return ipr::util::lexicographical_compare()(stored.seq.begin(), stored.seq.end(), key.seq->begin(),
                                                     key.seq->end(), IntCmp{});
      }
   };
   struct SeqElemInit : SeqElem { SeqElemInit(const SeqKey& k) : SeqElem{*k.seq, k.rank} { } };
   struct OwnLex : Tree {
      // rank r <-> the r-th sequence in lexicographic order over digits {0,1,2}, lengths 0..
      static std::vector<int> seq_of(int r)
      {
         // ranks enumerate sequences so that lexicographic order == numeric order of the rank:
         // use fixed width 7 base-3 digits followed by nothing (equal length => lexicographic == numeric)
         // plus, for odd ranks, a shorter prefix form: (r/2 in 6 digits) then marker
         std::vector<int> s;
         int v = r;
         for (int k = 0; k < 9; ++k) { s.insert(s.begin(), v % 3); v /= 3; }
         // drop trailing zeros so that lengths differ: a proper prefix sorts before its extensions,
         // which agrees with numeric order because the dropped digits are zeros
         while (not s.empty() and s.back() == 0) s.pop_back();
         return s;
      }
      struct Probe : rb::container<SeqElemInit> { auto r() const { return root; } } c;
      using N = rb::node<SeqElemInit>;
      Shape<N, int (*)(const N&)> sh;
      int insert(int k) override { auto s = seq_of(k); return c.insert(SeqKey{&s, k}, SeqCmp{})->rank; }
      bool find(int k) override { auto s = seq_of(k); return c.find(SeqKey{&s, k}, SeqCmp{}) != nullptr; }
      long size() override { return c.size(); }
      Value shape() override { return sh.dump(c.r(), +[](const N& n) { return n.data.rank; }); }
      bool owning() const override { return true; }
   };

   // -- intrusive flavour
   struct Link : rb::link<Link> { int key = 0; };
   struct LinkCmp {
      int operator()(const Link& stored, const Link& z) const { return IntCmp{}(stored.key, z.key); }
      int operator()(const Link& stored, int key) const { return IntCmp{}(stored.key, key); }
   };
   struct Chain : Tree {
      struct Probe : rb::chain<Link> { auto r() const { return root; } } c;
      std::deque<Link> store;
      Shape<Link, int (*)(const Link&)> sh;
      int insert(int k) override
      {
         // as the library's own client does (Overload::push_back after a failed lookup), but also offering
         // duplicates: the chain must then leave its shape alone
         // a key already in the tree is offered alternately by a fresh node object and by the very node that is linked there
         auto it = linked.find(k);
         if (it != linked.end() and (++dups % 2 == 1)) return c.insert(it->second, LinkCmp{})->key;
         store.emplace_back();
         store.back().key = k;
         auto got = c.insert(&store.back(), LinkCmp{});
         if (it == linked.end()) linked[k] = got;
         return got->key;
      }
      std::map<int, Link*> linked;
      long dups = 0;
      bool find(int k) override { return c.find(k, LinkCmp{}) != nullptr; }
      long size() override { return c.size(); }
      Value shape() override { return sh.dump(c.r(), +[](const Link& n) { return n.key; }); }
      bool owning() const override { return false; }
   };

   std::unique_ptr<Tree> make_tree(const std::string& kind, int maxkey)
   {
      if (kind == "owning") return std::make_unique<OwnInt>();
      if (kind == "address") return std::make_unique<OwnAddr>(maxkey);
      if (kind == "wide") return std::make_unique<OwnWide>();
      if (kind == "lexicographic") return std::make_unique<OwnLex>();
      if (kind == "chain") return std::make_unique<Chain>();
      throw std::runtime_error("unknown tree kind " + kind);
   }

   // The behaviour being executed is kept in the file named by VERIF_LASTBEH, so that a crash of the library
   // inside the replayer still leaves a replayable artefact.
   struct LastBeh {
      FILE* f = nullptr;
      LastBeh() { if (auto p = std::getenv("VERIF_LASTBEH")) f = std::fopen(p, "w"); }
      void note(const std::string& text)
      {
         if (f == nullptr) return;
         std::rewind(f);
         std::fwrite(text.data(), 1, text.size(), f);
         std::fputc('\n', f);
         std::fflush(f);
         if (ftruncate(fileno(f), static_cast<off_t>(text.size() + 1)) != 0) { }
      }
   };

   std::string tlc_unescape(const std::string& line)
   {
      auto b = line.find("\", \"");
      auto e = line.rfind("\">>");
      if (b == std::string::npos or e == std::string::npos) return { };
      std::string out;
      for (std::size_t k = b + 4; k < e; ++k) {
         if (line[k] == '\\' and k + 1 < e) { out += line[k + 1]; ++k; }
         else out += line[k];
      }
      return out;
   }

   Value ins_event(Tree& t, int k, bool with_shape)
   {
      auto ev = Value::object();
      int ret = t.insert(k);
      ev.set("e", "ins").set("k", k).set("ret", ret).set("size", t.size()).set("shape", with_shape ? 1 : 0);
      if (with_shape) ev.set("t", t.shape());
      else {
         auto e = Value::object();
         e.set("root", 0).set("key", Value::array()).set("left", Value::array()).set("right", Value::array())
            .set("parent", Value::array()).set("red", Value::array());
         ev.set("t", e);
      }
      return ev;
   }

   bool same_shape(const Value& pred, const Value& got)
   {
      for (auto f : {"root", "key", "left", "right", "parent", "red"})
         if (not vj::equal(pred.at(f), got.at(f))) return false;
      return true;
   }

   int do_replay(const std::string& kind)
   {
      std::ios::sync_with_stdio(false);
      std::string line;
      LastBeh lastbeh;
      long behaviours = 0, steps = 0, failed = 0, shape_diffs = 0, printed = 0, traced = 0;
      std::set<std::string> classes;
      std::map<std::string, long> fail_keys;
      std::string sample;
      while (std::getline(std::cin, line)) {
         std::string text = line.rfind("<<\"BEH\"", 0) == 0 ? tlc_unescape(line) : line;
         if (text.empty() or text[0] != '[') continue;
         Value beh = vj::parse(text);
         lastbeh.note(text);
         ++behaviours;
         if (sample.empty()) sample = text;
         auto t = make_tree(kind, 64);
         std::vector<std::string> trace;
         {
            auto nw = Value::object();
            nw.set("e", "new").set("owning", t->owning());
            trace.push_back(vj::dump(nw));
         }
         bool diff = false;
         std::string shape_class;
         std::size_t k = 0;
         for (auto& h : *beh.a) {
            ++k;
            ++steps;
            int key = static_cast<int>(h.at("k").as_int());
            auto ev = ins_event(*t, key, true);
            trace.push_back(vj::dump(ev));
            const Value& pt = h.at("t");
            std::string why;
            if (ev.at("ret").as_int() != key) why = "returned-element";
            else if (t->owning() and ev.at("size").as_int() != pt.at("count").as_int()) why = "size";
            else if (t->find(key) != (h.at("found").as_int() == key)) why = "find";
            if (not why.empty()) {
               ++failed;
               auto fk = "insert:" + why;
               ++fail_keys[fk];
               if (printed++ < 20) {
                  auto f = Value::object();
                  auto keys = Value::array();
                  for (std::size_t j = 0; j < k; ++j) keys.push((*beh.a)[j].at("k"));
                  f.set("key", fk).set("step", static_cast<long>(k)).set("keys", keys).set("got", ev).set("expected", h);
                  std::cout << "FAIL " << vj::dump(f) << "\n";
               }
               break;
            }
            if (not same_shape(pt, ev.at("t"))) diff = true;
            shape_class += h.at("dup").kind == Value::Bool and h.at("dup").b ? 'd' : 'n';
         }
         // distinct class: final predicted shape (structure + colours), a proxy for the rotation cases exercised
         if (not beh.a->empty()) {
            auto& last = beh.a->back().at("t");
            classes.insert(vj::dump(last.at("left")) + vj::dump(last.at("right")) + vj::dump(last.at("red")));
         }
         if (diff) {
            ++shape_diffs;
            if (traced++ < 300)
               for (auto& l : trace) std::cout << "T " << l << "\n";
         }
      }
      auto s = Value::object();
      auto fk = Value::object();
      for (auto& kv : fail_keys) fk.set(kv.first, kv.second);
      s.set("behaviours", behaviours).set("steps", steps).set("failed", failed).set("fail_keys", fk)
         .set("shape_diffs", shape_diffs).set("classes", static_cast<long>(classes.size())).set("sample", sample);
      std::cout << "SUMMARY " << vj::dump(s) << "\n";
      return 0;
   }

   int do_record(int argc, char** argv)
   {
      unsigned long seed = 1;
      int maxn = 200, dense = 40, every = 20;
      for (int k = 2; k + 1 < argc; k += 2) {
         std::string f = argv[k], v = argv[k + 1];
         if (f == "--seed") seed = std::stoul(v);
         else if (f == "--max") maxn = std::stoi(v);
         else if (f == "--dense") dense = std::stoi(v);
         else if (f == "--every") every = std::stoi(v);
      }
      std::ios::sync_with_stdio(false);
      std::mt19937_64 g { seed };
      auto run = [&](const std::string& kind, const std::vector<int>& keys, int keyspace) {
         auto t = make_tree(kind, keyspace);
         auto nw = Value::object();
         nw.set("e", "new").set("owning", t->owning()).set("kind", kind);
         std::cout << vj::dump(nw) << std::endl;
         std::set<int> in;
         int n = 0;
         for (int k : keys) {
            ++n;
            bool with_shape = n <= dense or n % every == 0 or n == static_cast<int>(keys.size());
            std::cout << vj::dump(ins_event(*t, k, with_shape)) << std::endl;
            in.insert(k);
            if (n % 7 == 0 or n == static_cast<int>(keys.size())) {
               // lookups: a present key, an absent key
               int present = *std::next(in.begin(), static_cast<long>(g() % in.size()));
               int absent = static_cast<int>(g() % static_cast<unsigned long>(keyspace + 1));
               for (int q : {present, absent}) {
                  auto fe = Value::object();
                  fe.set("e", "find").set("k", q).set("found", t->find(q) ? 1 : 0);
                  std::cout << vj::dump(fe) << "\n";
               }
            }
         }
         // every key of the key space once at the end
         for (int q = 0; q <= keyspace and q <= 400; ++q) {
            auto fe = Value::object();
            fe.set("e", "find").set("k", q).set("found", t->find(q) ? 1 : 0);
            std::cout << vj::dump(fe) << "\n";
         }
      };
      for (auto kind : {"owning", "chain", "address", "lexicographic", "wide"}) {
         for (int n : {maxn / 8, maxn}) {
            std::vector<int> asc, desc, zig, rnd, dup;
            for (int k = 1; k <= n; ++k) { asc.push_back(k); desc.push_back(n + 1 - k); }
            for (int k = 1; k <= n; ++k) zig.push_back(k % 2 ? (k + 1) / 2 : n + 1 - k / 2);
            rnd = asc;
            std::shuffle(rnd.begin(), rnd.end(), g);
            for (int k = 0; k < n; ++k) dup.push_back(1 + static_cast<int>(g() % static_cast<unsigned long>(n / 3 + 1)));
            run(kind, asc, n);
            run(kind, desc, n);
            run(kind, zig, n);
            run(kind, rnd, n);
            run(kind, dup, n);
         }
      }
      return 0;
   }
}

int main(int argc, char** argv)
{
   std::string mode = argc > 1 ? argv[1] : "";
   try {
      if (mode == "replay" and argc > 2) return do_replay(argv[2]);
      if (mode == "record") return do_record(argc, argv);
   }
   catch (const std::logic_error& e) {
      // the library throws logic errors, the harness run-time errors: one that arrives here escaped from a call of the library
      // where the harness expected none -- recorded like a crash (a terminal event), not as a failure of the harness
      std::cout.flush();
      std::cerr << "exception of the library escaped: " << e.what() << "\n";
      std::abort();
   }
   catch (const std::exception& e) {
      std::cout << "HARNESS-ERROR " << e.what() << "\n";
      return 2;
   }
   std::cerr << "usage: rbtree replay owning|chain | record ...\n";
   return 2;
}
