// Minimal JSON value, parser and writer for the verification harness (no external dependency).
#ifndef VERIF_JSON_HPP
#define VERIF_JSON_HPP
#include <cstdint>
#include <cstdio>
#include <map>
#include <memory>
#include <stdexcept>
#include <string>
#include <string_view>
#include <utility>
#include <vector>

namespace vj {
   struct Value;
   using Array = std::vector<Value>;
   // Objects keep insertion order (small, linear lookup).
   using Object = std::vector<std::pair<std::string, Value>>;

   struct Value {
      enum Kind { Null, Bool, Int, Str, Arr, Obj } kind = Null;
      bool b = false;
      std::int64_t i = 0;
      std::string s;
      std::shared_ptr<Array> a;
      std::shared_ptr<Object> o;

      Value() = default;
      Value(bool x) : kind{Bool}, b{x} { }
      Value(int x) : kind{Int}, i{x} { }
      Value(long x) : kind{Int}, i{x} { }
      Value(long long x) : kind{Int}, i{x} { }
      Value(unsigned x) : kind{Int}, i{x} { }
      Value(unsigned long x) : kind{Int}, i{static_cast<std::int64_t>(x)} { }
      Value(const char* x) : kind{Str}, s{x} { }
      Value(std::string x) : kind{Str}, s{std::move(x)} { }
      Value(std::string_view x) : kind{Str}, s{x} { }
      static Value array() { Value v; v.kind = Arr; v.a = std::make_shared<Array>(); return v; }
      static Value object() { Value v; v.kind = Obj; v.o = std::make_shared<Object>(); return v; }

      bool is_null() const { return kind == Null; }
      bool is_int() const { return kind == Int; }
      bool is_str() const { return kind == Str; }
      bool is_arr() const { return kind == Arr; }
      bool is_obj() const { return kind == Obj; }

      Value& push(Value v) { a->push_back(std::move(v)); return *this; }
      Value& set(const std::string& k, Value v)
      {
         for (auto& kv : *o)
            if (kv.first == k) { kv.second = std::move(v); return *this; }
         o->emplace_back(k, std::move(v));
         return *this;
      }
      const Value* find(const std::string& k) const
      {
         if (kind != Obj) return nullptr;
         for (auto& kv : *o)
            if (kv.first == k) return &kv.second;
         return nullptr;
      }
      const Value& at(const std::string& k) const
      {
         if (auto p = find(k)) return *p;
         throw std::runtime_error("json: missing key " + k);
      }
      const Value& at(std::size_t n) const { return a->at(n); }
      std::size_t size() const { return kind == Arr ? a->size() : kind == Obj ? o->size() : 0; }
      std::int64_t as_int() const
      {
         if (kind != Int) throw std::runtime_error("json: not an int");
         return i;
      }
      const std::string& as_str() const
      {
         if (kind != Str) throw std::runtime_error("json: not a string");
         return s;
      }
      std::int64_t get_int(const std::string& k, std::int64_t d) const
      {
         auto p = find(k);
         return p != nullptr and p->kind == Int ? p->i : d;
      }
      std::string get_str(const std::string& k, const std::string& d) const
      {
         auto p = find(k);
         return p != nullptr and p->kind == Str ? p->s : d;
      }
   };

   // Structural equality; object comparison ignores key order.
   inline bool equal(const Value& x, const Value& y)
   {
      if (x.kind != y.kind) return false;
      switch (x.kind) {
      case Value::Null: return true;
      case Value::Bool: return x.b == y.b;
      case Value::Int: return x.i == y.i;
      case Value::Str: return x.s == y.s;
      case Value::Arr:
         if (x.a->size() != y.a->size()) return false;
         for (std::size_t k = 0; k < x.a->size(); ++k)
            if (not equal((*x.a)[k], (*y.a)[k])) return false;
         return true;
      case Value::Obj:
         if (x.o->size() != y.o->size()) return false;
         for (auto& kv : *x.o) {
            auto p = y.find(kv.first);
            if (p == nullptr or not equal(kv.second, *p)) return false;
         }
         return true;
      }
      return false;
   }

   inline void dump_str(std::string& out, const std::string& s)
   {
      out += '"';
      for (unsigned char c : s) {
         switch (c) {
         case '"': out += "\\\""; break;
         case '\\': out += "\\\\"; break;
         case '\n': out += "\\n"; break;
         case '\t': out += "\\t"; break;
         case '\r': out += "\\r"; break;
         default:
            if (c < 0x20 or c >= 0x7f) {
               char buf[8];
               std::snprintf(buf, sizeof buf, "\\u%04x", c);
               out += buf;
            }
            else
               out += static_cast<char>(c);
         }
      }
      out += '"';
   }

   inline void dump(std::string& out, const Value& v)
   {
      switch (v.kind) {
      case Value::Null: out += "null"; break;
      case Value::Bool: out += v.b ? "true" : "false"; break;
      case Value::Int: out += std::to_string(v.i); break;
      case Value::Str: dump_str(out, v.s); break;
      case Value::Arr: {
         out += '[';
         bool first = true;
         for (auto& x : *v.a) {
            if (not first) out += ',';
            first = false;
            dump(out, x);
         }
         out += ']';
         break;
      }
      case Value::Obj: {
         out += '{';
         bool first = true;
         for (auto& kv : *v.o) {
            if (not first) out += ',';
            first = false;
            dump_str(out, kv.first);
            out += ':';
            dump(out, kv.second);
         }
         out += '}';
         break;
      }
      }
   }

   inline std::string dump(const Value& v)
   {
      std::string out;
      dump(out, v);
      return out;
   }

   struct Parser {
      std::string_view t;
      std::size_t p = 0;
      explicit Parser(std::string_view text) : t{text} { }
      [[noreturn]] void fail(const char* m) const
      {
         throw std::runtime_error(std::string("json parse: ") + m + " at " + std::to_string(p));
      }
      void ws() { while (p < t.size() and (t[p] == ' ' or t[p] == '\n' or t[p] == '\t' or t[p] == '\r')) ++p; }
      Value parse()
      {
         ws();
         if (p >= t.size()) fail("eof");
         char c = t[p];
         if (c == '{') {
            ++p;
            Value v = Value::object();
            ws();
            if (p < t.size() and t[p] == '}') { ++p; return v; }
            for (;;) {
               ws();
               if (p >= t.size() or t[p] != '"') fail("key");
               std::string k = str();
               ws();
               if (p >= t.size() or t[p] != ':') fail("colon");
               ++p;
               v.o->emplace_back(std::move(k), parse());
               ws();
               if (p < t.size() and t[p] == ',') { ++p; continue; }
               if (p < t.size() and t[p] == '}') { ++p; return v; }
               fail("object");
            }
         }
         if (c == '[') {
            ++p;
            Value v = Value::array();
            ws();
            if (p < t.size() and t[p] == ']') { ++p; return v; }
            for (;;) {
               v.a->push_back(parse());
               ws();
               if (p < t.size() and t[p] == ',') { ++p; continue; }
               if (p < t.size() and t[p] == ']') { ++p; return v; }
               fail("array");
            }
         }
         if (c == '"') return Value{str()};
         if (t.compare(p, 4, "true") == 0) { p += 4; return Value{true}; }
         if (t.compare(p, 5, "false") == 0) { p += 5; return Value{false}; }
         if (t.compare(p, 4, "null") == 0) { p += 4; return Value{}; }
         if (c == '-' or (c >= '0' and c <= '9')) {
            std::size_t q = p;
            if (t[q] == '-') ++q;
            while (q < t.size() and t[q] >= '0' and t[q] <= '9') ++q;
            long long n = std::stoll(std::string(t.substr(p, q - p)));
            p = q;
            return Value{n};
         }
         fail("value");
      }
      std::string str()
      {
         ++p;
         std::string out;
         while (p < t.size() and t[p] != '"') {
            if (t[p] == '\\') {
               ++p;
               if (p >= t.size()) fail("escape");
               switch (t[p]) {
               case 'n': out += '\n'; break;
               case 't': out += '\t'; break;
               case 'r': out += '\r'; break;
               case 'b': out += '\b'; break;
               case 'f': out += '\f'; break;
               case 'u': {
                  if (p + 4 >= t.size()) fail("unicode");
                  unsigned cp = std::stoul(std::string(t.substr(p + 1, 4)), nullptr, 16);
                  p += 4;
                  if (cp < 0x80) out += static_cast<char>(cp);
                  else if (cp < 0x800) { out += static_cast<char>(0xC0 | (cp >> 6)); out += static_cast<char>(0x80 | (cp & 0x3F)); }
                  else { out += static_cast<char>(0xE0 | (cp >> 12)); out += static_cast<char>(0x80 | ((cp >> 6) & 0x3F)); out += static_cast<char>(0x80 | (cp & 0x3F)); }
                  break;
               }
               default: out += t[p];
               }
               ++p;
            }
            else
               out += t[p++];
         }
         if (p >= t.size()) fail("unterminated string");
         ++p;
         return out;
      }
   };

   inline Value parse(std::string_view text) { return Parser{text}.parse(); }
}
#endif
