// Harness for spec/IprForms*.tla: one object of every declarator-form, attribute and capture class through every factory
// overload; each is visited with a recording visitor of every family it belongs to.
//   forms sweep      stdout: ndjson, one line per (object, family)
#include <cstdlib>
#include <iostream>
#include "maker.hpp"

using vj::Value;
using namespace vm;
namespace cf = ipr::cxx_form;

namespace {
   struct Rec { std::vector<std::string> hooks; void in(const char* n) { hooks.push_back(n); } };

   struct ConstraintV : cf::Constraint_visitor, Rec {
      void visit(const cf::Constraint::Monadic&) override { in("Constraint::Monadic"); }
      void visit(const cf::Constraint::Polyadic&) override { in("Constraint::Polyadic"); }
   };
   struct RequirementV : cf::Requirement_visitor, Rec {
      void visit(const cf::Requirement::Simple&) override { in("Requirement::Simple"); }
      void visit(const cf::Requirement::Type&) override { in("Requirement::Type"); }
      void visit(const cf::Requirement::Compound&) override { in("Requirement::Compound"); }
      void visit(const cf::Requirement::Nested&) override { in("Requirement::Nested"); }
   };
   struct IndirectorV : cf::Indirector_visitor, Rec {
      void visit(const cf::Indirector::Pointer&) override { in("Indirector::Pointer"); }
      void visit(const cf::Indirector::Reference&) override { in("Indirector::Reference"); }
      void visit(const cf::Indirector::Member&) override { in("Indirector::Member"); }
   };
   struct SpeciesV : cf::Species_visitor, Rec {
      void visit(const cf::Species_declarator::Unqualified_id&) override { in("Species_declarator::Unqualified_id"); }
      void visit(const cf::Species_declarator::Pack&) override { in("Species_declarator::Pack"); }
      void visit(const cf::Species_declarator::Qualified_id&) override { in("Species_declarator::Qualified_id"); }
      void visit(const cf::Species_declarator::Parenthesized&) override { in("Species_declarator::Parenthesized"); }
   };
   struct MorphismV : cf::Morphism_visitor, Rec {
      void visit(const cf::Morphism::Function&) override { in("Morphism::Function"); }
      void visit(const cf::Morphism::Array&) override { in("Morphism::Array"); }
   };
   struct DeclaratorV : cf::Declarator_visitor, Rec {
      void visit(const cf::Declarator::Term&) override { in("Declarator::Term"); }
      void visit(const cf::Declarator::Targeted&) override { in("Declarator::Targeted"); }
   };
   struct ProvisionV : cf::Provision_visitor, Rec {
      void visit(const cf::Classic_provision&) override { in("Classic_provision"); }
      void visit(const cf::Parenthesized_provision&) override { in("Parenthesized_provision"); }
      void visit(const cf::Braced_provision&) override { in("Braced_provision"); }
      void visit(const cf::Designated_list_provision&) override { in("Designated_list_provision"); }
   };
   struct InitializerV : cf::Initializer_visitor, Rec {
      void visit(const cf::Expr_initializer&) override { in("Expr_initializer"); }
      void visit(const cf::Braced_provision&) override { in("Braced_provision"); }
      void visit(const cf::Designated_list_provision&) override { in("Designated_list_provision"); }
   };
   struct DesignatorV : cf::Designator_visitor, Rec {
      void visit(const cf::Field_designator&) override { in("Field_designator"); }
      void visit(const cf::Slot_designator&) override { in("Slot_designator"); }
   };
   struct AttributeV : ipr::Attribute::Visitor, Rec {
      void visit(const ipr::BasicAttribute&) override { in("BasicAttribute"); }
      void visit(const ipr::ScopedAttribute&) override { in("ScopedAttribute"); }
      void visit(const ipr::LabeledAttribute&) override { in("LabeledAttribute"); }
      void visit(const ipr::CalledAttribute&) override { in("CalledAttribute"); }
      void visit(const ipr::ExpandedAttribute&) override { in("ExpandedAttribute"); }
      void visit(const ipr::FactoredAttribute&) override { in("FactoredAttribute"); }
      void visit(const ipr::ElaboratedAttribute&) override { in("ElaboratedAttribute"); }
   };
   struct CaptureV : ipr::Capture_specification::Visitor, Rec {
      void visit(const ipr::Capture_specification::Default&) override { in("Default"); }
      void visit(const ipr::Capture_specification::Implicit_object&) override { in("Implicit_object"); }
      void visit(const ipr::Capture_specification::Enclosing_local&) override { in("Enclosing_local"); }
      void visit(const ipr::Capture_specification::Binding&) override { in("Binding"); }
      void visit(const ipr::Capture_specification::Expansion&) override { in("Expansion"); }
   };

   template<class V, class X> void offer(const char* cls, const char* how, const char* family, const X& x)
   {
      V v;
      x.accept(v);
      auto ev = Value::object();
      auto hooks = Value::array();
      for (auto& h : v.hooks) hooks.push(h);
      ev.set("e", "form").set("class", cls).set("how", how).set("family", family).set("hooks", hooks);
      std::cout << vj::dump(ev) << "\n";
   }

   int do_sweep()
   {
      Maker mk;
      auto& w = mk.w;
      auto& lx = w.lex;
      auto& f = mk.forms();
      auto& idA = lx.get_identifier(u8"alpha");
      auto& e1 = *lx.make_literal(lx.int_type(), u8"1");
      const ipr::Lexicon& clx = lx;
      // -- constraints, requirements
      offer<ConstraintV>("Constraint::Monadic", "make_monadic_constraint(id)", "Constraint", static_cast<const cf::Constraint&>(*f.make_monadic_constraint(idA)));
      offer<ConstraintV>("Constraint::Monadic", "make_monadic_constraint(scope, id)", "Constraint", static_cast<const cf::Constraint&>(*f.make_monadic_constraint(e1, idA)));
      offer<ConstraintV>("Constraint::Polyadic", "make_polyadic_constraint(id)", "Constraint", static_cast<const cf::Constraint&>(*f.make_polyadic_constraint(idA)));
      offer<ConstraintV>("Constraint::Polyadic", "make_polyadic_constraint(scope, id)", "Constraint", static_cast<const cf::Constraint&>(*f.make_polyadic_constraint(e1, idA)));
      offer<RequirementV>("Requirement::Simple", "make_simple_requirement", "Requirement", static_cast<const cf::Requirement&>(*f.make_simple_requirement(e1)));
      offer<RequirementV>("Requirement::Type", "make_type_requirement(name)", "Requirement", static_cast<const cf::Requirement&>(*f.make_type_requirement(idA)));
      offer<RequirementV>("Requirement::Type", "make_type_requirement(scope, name)", "Requirement", static_cast<const cf::Requirement&>(*f.make_type_requirement(e1, idA)));
      offer<RequirementV>("Requirement::Compound", "make_compound_requirement", "Requirement", static_cast<const cf::Requirement&>(*f.make_compound_requirement(e1)));
      offer<RequirementV>("Requirement::Nested", "make_nested_requirement", "Requirement", static_cast<const cf::Requirement&>(*f.make_nested_requirement(e1)));
      // -- indirectors, species, morphisms, declarators
      offer<IndirectorV>("Indirector::Pointer", "make_pointer_indirector", "Indirector", static_cast<const cf::Indirector&>(*f.make_pointer_indirector(clx.const_qualifier())));
      offer<IndirectorV>("Indirector::Reference", "make_reference_indirector(lvalue)", "Indirector", static_cast<const cf::Indirector&>(*f.make_reference_indirector(static_cast<cf::Reference_flavor>(0))));
      offer<IndirectorV>("Indirector::Reference", "make_reference_indirector(rvalue)", "Indirector", static_cast<const cf::Indirector&>(*f.make_reference_indirector(static_cast<cf::Reference_flavor>(1))));
      offer<IndirectorV>("Indirector::Member", "make_member_indirector", "Indirector", static_cast<const cf::Indirector&>(*f.make_member_indirector(e1, clx.volatile_qualifier())));
      auto sp_u0 = f.make_unqualified_id_species();
      auto sp_u1 = f.make_unqualified_id_species(idA);
      offer<SpeciesV>("Species_declarator::Unqualified_id", "make_unqualified_id_species()", "Species", static_cast<const cf::Species_declarator&>(*sp_u0));
      offer<SpeciesV>("Species_declarator::Unqualified_id", "make_unqualified_id_species(name)", "Species", static_cast<const cf::Species_declarator&>(*sp_u1));
      offer<SpeciesV>("Species_declarator::Pack", "make_pack_species()", "Species", static_cast<const cf::Species_declarator&>(*f.make_pack_species()));
      offer<SpeciesV>("Species_declarator::Pack", "make_pack_species(id)", "Species", static_cast<const cf::Species_declarator&>(*f.make_pack_species(idA)));
      offer<SpeciesV>("Species_declarator::Qualified_id", "make_qualified_id_species", "Species", static_cast<const cf::Species_declarator&>(*f.make_qualified_id_species(e1, idA)));
      offer<SpeciesV>("Species_declarator::Parenthesized", "make_parenthesized_species", "Species", static_cast<const cf::Species_declarator&>(*f.make_parenthesized_species()));
      offer<MorphismV>("Morphism::Function", "make_function_morphism", "Morphism", static_cast<const cf::Morphism&>(*f.make_function_morphism(*w.unit.global_region(), ipr::Mapping_level{1})));
      offer<MorphismV>("Morphism::Array", "make_array_morphism", "Morphism", static_cast<const cf::Morphism&>(*f.make_array_morphism()));
      offer<DeclaratorV>("Declarator::Term", "make_term_declarator", "Declarator", static_cast<const cf::Declarator&>(*f.make_term_declarator()));
      offer<DeclaratorV>("Declarator::Targeted", "make_targeted_declarator", "Declarator", static_cast<const cf::Declarator&>(*f.make_targeted_declarator(*sp_u1, lx.int_type())));
      // -- provisions (two of them are elemental initializers as well), designators
      auto braced = f.make_braced_provision();
      auto desig = f.make_designated_provision();
      offer<ProvisionV>("Classic_provision", "make_classic_provision", "Provision", static_cast<const cf::Initialization_provision&>(*f.make_classic_provision(*braced)));
      offer<ProvisionV>("Parenthesized_provision", "make_parenthesized_provision", "Provision", static_cast<const cf::Initialization_provision&>(*f.make_parenthesized_provision(e1)));
      offer<ProvisionV>("Braced_provision", "make_braced_provision", "Provision", static_cast<const cf::Initialization_provision&>(*braced));
      offer<ProvisionV>("Designated_list_provision", "make_designated_provision", "Provision", static_cast<const cf::Initialization_provision&>(*desig));
      offer<InitializerV>("Braced_provision", "make_braced_provision", "Initializer", static_cast<const cf::Elemental_initializer&>(*braced));
      offer<InitializerV>("Designated_list_provision", "make_designated_provision", "Initializer", static_cast<const cf::Elemental_initializer&>(*desig));
      offer<DesignatorV>("Field_designator", "make_field_designator", "Designator", static_cast<const cf::Subobject_designator&>(*f.make_field_designator(idA)));
      offer<DesignatorV>("Slot_designator", "make_slot_designator", "Designator", static_cast<const cf::Subobject_designator&>(*f.make_slot_designator(e1)));
      // -- attributes
      auto& strA = lx.get_string(u8"sA");
      auto t1 = mk.new_token(strA, 1, 2, 3, ipr::TokenValue{5}, ipr::TokenCategory{1});
      auto t2 = mk.new_token(strA, 4, 5, 6, ipr::TokenValue{7}, ipr::TokenCategory{2});
      auto& basic = mk.attrs.make_basic_attribute(*t1);
      impl::ref_sequence<ipr::Attribute> seq;
      seq.push_back(&basic);
      offer<AttributeV>("BasicAttribute", "make_basic_attribute", "Attribute", static_cast<const ipr::Attribute&>(basic));
      offer<AttributeV>("ScopedAttribute", "make_scoped_attribute", "Attribute", static_cast<const ipr::Attribute&>(mk.attrs.make_scoped_attribute(*t1, *t2)));
      offer<AttributeV>("LabeledAttribute", "make_labeled_attribute", "Attribute", static_cast<const ipr::Attribute&>(mk.attrs.make_labeled_attribute(*t1, basic)));
      offer<AttributeV>("CalledAttribute", "make_called_attribute", "Attribute", static_cast<const ipr::Attribute&>(mk.attrs.make_called_attribute(basic, seq)));
      offer<AttributeV>("ExpandedAttribute", "make_expanded_attribute", "Attribute", static_cast<const ipr::Attribute&>(mk.attrs.make_expanded_attribute(*t2, basic)));
      offer<AttributeV>("FactoredAttribute", "make_factored_attribute", "Attribute", static_cast<const ipr::Attribute&>(mk.attrs.make_factored_attribute(*t1, seq)));
      offer<AttributeV>("ElaboratedAttribute", "make_elaborated_attribute", "Attribute", static_cast<const ipr::Attribute&>(mk.attrs.make_elaborated_attribute(e1)));
      // -- capture specifications
      auto v1 = w.unit.global_scope()->make_var(lx.get_identifier(u8"captured"), lx.int_type());
      auto& local = mk.caps.enclosing_local_capture(*v1, ipr::Binding_mode::Copy);
      for (auto bm : { ipr::Binding_mode::Copy, ipr::Binding_mode::Reference }) {
         offer<CaptureV>("Default", "default_capture", "Capture", static_cast<const ipr::Capture_specification&>(mk.caps.default_capture(bm)));
         offer<CaptureV>("Implicit_object", "implicit_object_capture", "Capture", static_cast<const ipr::Capture_specification&>(mk.caps.implicit_object_capture(bm)));
         offer<CaptureV>("Enclosing_local", "enclosing_local_capture", "Capture", static_cast<const ipr::Capture_specification&>(mk.caps.enclosing_local_capture(*v1, bm)));
         offer<CaptureV>("Binding", "binding_capture", "Capture", static_cast<const ipr::Capture_specification&>(mk.caps.binding_capture(idA, e1, bm)));
      }
      offer<CaptureV>("Expansion", "expansion_capture", "Capture", static_cast<const ipr::Capture_specification&>(mk.caps.expansion_capture(local)));
      return 0;
   }
}

int main(int argc, char** argv)
{
   std::string mode = argc > 1 ? argv[1] : "";
   try {
      if (mode == "sweep") return do_sweep();
   }
   catch (const std::logic_error& e) {
      // the library throws logic errors, the harness run-time errors: one that arrives here escaped from a call of the library
      // where the harness expected none -- recorded like a crash (a terminal event), not as a failure of the harness
      std::cout.flush();
      std::cerr << "exception of the library escaped: " << e.what() << "\n";
      std::abort();
   }
   catch (const std::exception& e) {
      std::cout << "HARNESS-ERROR " << e.what() << "\n";
      return 2;
   }
   return 2;
}
