// The Maker: a World plus the operand pool and the generated factory dispatch (tools/gen_nodes.py).
#ifndef VERIF_MAKER_HPP
#define VERIF_MAKER_HPP
#include <deque>
#include <functional>
#include <type_traits>
#include "world.hpp"

namespace vm {
   using vj::Value;
   namespace impl = ipr::impl;
   Value one(long v) { auto a = Value::array(); a.push(v); return a; }

   struct Made {
      int id = 0;
      std::string cat;
      std::function<Value()> observe;
      std::function<bool(const std::string&, int)> set_link;
   };

   struct Maker {
      vh::World w;
      impl::attr_factory attrs;
      impl::capture_spec_factory caps;
      impl::Mapping* pool_mapping = nullptr;
      impl::Region* pool_sub = nullptr;
      std::deque<impl::ref_sequence<ipr::Attribute>> attr_seqs;
      std::deque<impl::Token> tokens;
      const ipr::Token* new_token(const ipr::String& s, unsigned line, unsigned col, unsigned file, ipr::TokenValue v, ipr::TokenCategory c)
      {
         ipr::Source_location loc;
         loc.line = ipr::Line_number{line}; loc.column = ipr::Column_number{col}; loc.file = ipr::File_index{file};
         tokens.emplace_back(s, loc, v, c);
         return &tokens.back();
      }

      Maker() { w.init_consts(); build_pool(); }

      impl::Region& forms() { return *w.unit.global_region(); }

      // -- argument conversions
      ipr::Optional<ipr::Type> optT(int id) { return id == 0 ? ipr::Optional<ipr::Type>{} : ipr::Optional<ipr::Type>{w.as<ipr::Type>(id)}; }
      ipr::Optional<ipr::String> optS(int id) { return id == 0 ? ipr::Optional<ipr::String>{} : ipr::Optional<ipr::String>{w.as<ipr::String>(id)}; }
      ipr::Optional<ipr::Expr_list> optEL(int id) { return id == 0 ? ipr::Optional<ipr::Expr_list>{} : ipr::Optional<ipr::Expr_list>{w.as<ipr::Expr_list>(id)}; }
      template<class T> const T* raw(int id)
      {
         auto& e = w.ent(id);
         if (e.kind != vh::K_other) throw vh::HarnessError("entity " + std::to_string(id) + " is not an interface object");
         return static_cast<const T*>(e.raw);
      }
      template<class T> int reg_raw(const T* p) { return w.reg_raw(static_cast<const void*>(p), vh::K_other); }
      int mk_list(std::initializer_list<int> items)
      {
         auto l = w.lex.make_expr_list();
         for (int i : items) l->push_back(&w.as<ipr::Expr>(i));
         return w.reg(*l);
      }
      int mk_attrs(std::initializer_list<int> items)
      {
         attr_seqs.emplace_back();
         for (int i : items) attr_seqs.back().push_back(raw<ipr::Attribute>(i));
         return reg_raw(static_cast<const ipr::Sequence<ipr::Attribute>*>(&attr_seqs.back()));
      }
      static void expect_id(int got, int want, const char* name)
      {
         if (got != want)
            throw vh::HarnessError(std::string("operand pool: ") + name + " got id " + std::to_string(got) + ", expected " + std::to_string(want));
      }
      template<class T> static T* ptr_of(T* p) { return p; }
      template<class T> static const T* ptr_of(const T& r) { return &r; }
      template<class T, class U> static const T& dyn(const U& u)
      {
         if (auto p = dynamic_cast<const T*>(&u)) return *p;
         throw std::logic_error("not of the expected kind");
      }

      template<class I> int reg_any(const I& n)
      {
         if constexpr (std::is_base_of_v<ipr::Node, I>) return w.reg(static_cast<const ipr::Node&>(n));
         else return reg_raw(&n);
      }

      // -- values read back through the interface, as sequences of integers
      Value val(const ipr::Node& n)
      {
         if (int id = w.lookup(n)) return one(id);
         if (auto p = dynamic_cast<const ipr::Product*>(&n)) {
            // a product that is not a node of its own (the type of a growing sequence): element by element,
            // an element whose own type is refused reads as -1
            auto a = one(-3);
            auto& els = p->elements();
            for (std::size_t k = 0; k < static_cast<std::size_t>(els.size()); ++k) {
               try { int id = w.lookup(*els.position(k)); a.push(id ? id : -9); }
               catch (const std::logic_error&) { a.push(-1); }
            }
            return a;
         }
         return one(-9);
      }
      template<class T> Value rawval(const T& x)
      {
         int id = w.lookup(static_cast<const void*>(&x), vh::K_other);
         return one(id ? id : -9);
      }
      Value val(const ipr::Linkage& x) { int id = w.lookup(static_cast<const void*>(&x), vh::K_linkage); return one(id ? id : -9); }
      Value val(const ipr::Substitution& x) { return rawval(x); }
      Value val(const ipr::Token& x) { return rawval(x); }
      Value val(const ipr::Attribute& x) { return rawval(x); }
      Value val(const ipr::cxx_form::Species_declarator& x) { return rawval(x); }
      Value val(const ipr::cxx_form::Elemental_initializer& x) { return rawval(x); }
      Value val(const ipr::cxx_form::Constraint& x) { return rawval(x); }
      Value val(const ipr::Capture_specification::Named& x) { return rawval(x); }
      Value val(const ipr::Capture_specification& x) { return rawval(x); }
      Value val(const ipr::cxx_form::Morphism& x) { return rawval(x); }
      Value val(const ipr::cxx_form::Indirector& x) { return rawval(x); }
      Value val(const ipr::cxx_form::Requirement& x) { return rawval(x); }
      Value val(const ipr::cxx_form::Proclamator& x) { return rawval(x); }
      Value val(const ipr::cxx_form::Earmarked_initializer& x) { return rawval(x); }
      Value val(const ipr::Capture& x) { return rawval(x); }
      Value val(ipr::Qualifiers q) { return one(vh::World::qbits(w.lex, q)); }
      Value val(ipr::Specifiers s) { return one(static_cast<long>(s)); }
      Value val(bool b) { return one(b ? 1 : 0); }
      template<class E> requires std::is_enum_v<E> Value val(E e) { return one(static_cast<long>(e)); }
      template<class N> requires std::is_integral_v<N> Value val(N n) { return one(static_cast<long>(n)); }
      template<class T> Value val(ipr::Optional<T> o) { return o.is_valid() ? val(o.get()) : one(0); }
      template<class T> Value val(const ipr::Sequence<T>& s)
      {
         auto a = Value::array();
         std::size_t k = 0;
         for (auto& x : s) { auto v = val(x); a.push(v.size() ? v.at(0) : Value{-9}); ++k; }
         if (k != static_cast<std::size_t>(s.size())) a.push(-7);
         return a;
      }
      template<class Fn> static Value guard(Fn f)
      {
         try { return f(); }
         catch (const std::logic_error&) { return one(-1); }
         catch (...) { return one(-8); }
      }

#include "gen_make.inc"

      // observation in the shape of Expected(md, id)
      static Value shaped(const Value& flat)
      {
         auto o = Value::object();
         auto acc = Value::object();
         for (auto& kv : *flat.o) {
            if (kv.first == "cat") o.set("cat", kv.second);
            else if (kv.first == "type") o.set("type", kv.second.is_str() ? one(-2) : kv.second);
            else acc.set(kv.first, kv.second);
         }
         o.set("acc", acc);
         return o;
      }
   };

}
#endif
