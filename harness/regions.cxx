// Harness for spec/IprRegions*.tla (property C12).
//   regions replay                 stdin: TLC behaviours (binding A)
//   regions record --seed S --runs R --len L     stdout: ndjson trace of random nestings (binding B)
#include <algorithm>
#include <cstdio>
#include <cstdlib>
#include <deque>
#include <iostream>
#include <memory>
#include <random>
#include <set>
#include <unistd.h>
#include "world.hpp"

using vj::Value;
namespace impl = ipr::impl;

namespace {
   struct Item {
      std::string c;
      const ipr::Node* node = nullptr;
      const void* raw = nullptr;
      bool owner_prescribed = false;      // regions only
   };

   struct Stage {
      impl::Lexicon lex;
      std::deque<impl::Translation_unit> units;
      std::deque<impl::Module> modules;
      std::vector<Item> items { Item{} };
      std::map<const void*, int> ids;                       // Node address (or raw address) -> id
      std::map<int, impl::Handler*> handlers;
      int counter = 0;
      int handlers_made = 1;          // (the first handler of a world catches `...`)

      int reg(const std::string& c, const ipr::Node* n, const void* raw, bool owner_prescribed = false)
      {
         const void* key = n ? static_cast<const void*>(n) : raw;
         auto it = ids.find(key);
         if (it != ids.end()) return it->second;
         items.push_back(Item{c, n, raw, owner_prescribed});
         return ids[key] = static_cast<int>(items.size()) - 1;
      }
      int id_of(const ipr::Node& n) const { auto it = ids.find(&n); return it == ids.end() ? -2 : it->second; }
      const Item& item(int id) const { return items.at(id); }
      template<class T> T* as(int id) const
      {
         auto p = dynamic_cast<const T*>(item(id).node);
         if (p == nullptr) throw vh::HarnessError("entity " + std::to_string(id) + " has the wrong kind");
         return const_cast<T*>(p);
      }
      const ipr::Region& region(int id) const { return *as<ipr::Region>(id); }

      const ipr::Name& fresh_name() { return lex.get_identifier(vh::u8("m" + std::to_string(++counter))); }
      // every second parameter is unnamed: unnamed parameters of one list share the empty identifier and are still parameters of
      // their own, each at its own position
      const ipr::Name& param_name() { return ++counter % 2 ? lex.get_identifier(u8"") : lex.get_identifier(vh::u8("m" + std::to_string(counter))); }

      // -- observation of one entity ---------------------------------------------------------------
      Value obs(int id)
      {
         auto& it = item(id);
         std::string c = it.c;
         long parent = 0, owner = 0, of = 0, lvl = 0, pos = 0, depth = 0;
         bool glob = false;
         auto binds = Value::array();
         auto rid = [&](const ipr::Region& r) { return static_cast<long>(id_of(r)); };
         try {
            if (c == "Region") {
               auto& r = *static_cast<const ipr::Region*>(it.node);
               glob = r.global();
               try { parent = rid(r.enclosing()); } catch (const std::logic_error&) { parent = 0; }
               if (it.owner_prescribed) { auto o = r.owner(); owner = o.is_valid() ? id_of(o.get()) : 0; }
               else owner = -1;
               lvl = dynamic_cast<const impl::Region*>(&r) ? 0 : 1;
               // outward walk
               const ipr::Region* cur = &r;
               long steps = 0;
               try {
                  while (not cur->global() and steps < 100000) { cur = &cur->enclosing(); ++steps; }
                  depth = cur->global() ? steps : -1;
               }
               catch (const std::logic_error&) { depth = -1; }
               for (auto& d : r.bindings().elements()) binds.push(id_of(d));
            }
            else if (c == "Class" or c == "Union" or c == "Namespace" or c == "Closure" or c == "Enum") {
               if (auto p = dynamic_cast<const ipr::Class*>(it.node)) of = rid(p->region());
               else if (auto p = dynamic_cast<const ipr::Union*>(it.node)) of = rid(p->region());
               else if (auto p = dynamic_cast<const ipr::Namespace*>(it.node)) of = rid(p->region());
               else if (auto p = dynamic_cast<const ipr::Closure*>(it.node)) of = rid(p->region());
               else if (auto p = dynamic_cast<const ipr::Enum*>(it.node)) of = rid(p->region());
            }
            else if (c == "Block") {
               of = rid(dynamic_cast<const ipr::Block*>(it.node)->region());
               lvl = dynamic_cast<const impl::Block*>(it.node) ? 0 : 1;      // 1: the body of a handler
            }
            else if (c == "Handler") of = rid(dynamic_cast<const ipr::Handler*>(it.node)->body().region());
            else if (c == "Mapping") { auto& pl = dynamic_cast<const ipr::Mapping*>(it.node)->parameters(); of = rid(pl.region()); lvl = static_cast<long>(pl.level()); }
            else if (c == "Lambda") { auto& pl = dynamic_cast<const ipr::Lambda*>(it.node)->parameters(); of = rid(pl.region()); lvl = static_cast<long>(pl.level()); }
            else if (c == "Requires") { auto& pl = dynamic_cast<const ipr::Requires*>(it.node)->parameters(); of = rid(pl.region()); lvl = static_cast<long>(pl.level()); }
            else if (c == "Morphism") {
               auto& pl = static_cast<const ipr::cxx_form::Morphism::Function*>(it.raw)->parameters();
               of = rid(pl.region()); lvl = static_cast<long>(pl.level());
            }
            else if (c == "Where") of = rid(dynamic_cast<const impl::Where*>(it.node)->region);
            else if (c == "Unit") {
               auto u = static_cast<const ipr::Translation_unit*>(it.raw);
               of = rid(u->global_namespace().region());
               if (auto m = dynamic_cast<const ipr::Module_unit*>(u)) {
                  auto pm = ids.find(static_cast<const void*>(&m->parent_module()));
                  parent = pm == ids.end() ? -2 : pm->second;
               }
               // the global namespace is unnamed and typed `namespace`
               auto& ns = u->global_namespace();
               auto nm = dynamic_cast<const ipr::Identifier*>(&ns.name());
               if (nm == nullptr or nm->string().size() != 0) c = "Unit!named-global-namespace";
               else if (&ns.type() != &static_cast<const ipr::Lexicon&>(lex).namespace_type()) c = "Unit!global-namespace-type";
            }
            else if (c == "Module") {
               auto m = static_cast<const ipr::Module*>(it.raw);
               if (&m->interface_unit().parent_module() != m) c = "Module!interface-unit-backlink";
            }
            else if (c == "Parameter") {
               auto p = dynamic_cast<const ipr::Parameter*>(it.node);
               parent = rid(p->home_region()); lvl = static_cast<long>(p->level()); pos = static_cast<long>(p->position());
               if (&p->lexical_region() != &p->home_region()) c = "Parameter!lexical-region";
            }
            else if (c == "Enumerator") {
               auto p = dynamic_cast<const ipr::Enumerator*>(it.node);
               parent = rid(p->home_region()); pos = static_cast<long>(p->position());
               if (&p->lexical_region() != &p->home_region()) c = "Enumerator!lexical-region";
            }
            else if (c == "Base_type") {
               auto p = dynamic_cast<const ipr::Base_type*>(it.node);
               parent = rid(p->home_region()); pos = static_cast<long>(p->position());
            }
            else if (c == "EH_parameter") parent = -1;      // its home region is not prescribed by the property
         }
         catch (const std::logic_error& e) { c += std::string("!refused:") + e.what(); }
         auto o = Value::object();
         o.set("c", c).set("parent", parent).set("owner", owner).set("of", of).set("lvl", lvl).set("pos", pos)
            .set("glob", glob).set("depth", depth).set("binds", binds);
         return o;
      }

      // -- the calls -------------------------------------------------------------------------------
      // returns the ids registered by the call, in the order the specification lists them
      std::vector<int> call(const std::string& op, const std::vector<int>& a)
      {
         std::vector<int> out;
         auto unit_parts = [&](const ipr::Translation_unit& u) {
            out.push_back(reg("Unit", nullptr, &u));
            out.push_back(reg("Namespace", &u.global_namespace(), nullptr));
            out.push_back(reg("Region", &u.global_namespace().region(), nullptr, true));
         };
         auto level = [&](int k) { return ipr::Mapping_level{static_cast<std::size_t>(a.at(k))}; };
         if (op == "make_unit") { units.emplace_back(lex); unit_parts(units.back()); }
         else if (op == "make_module") {
            modules.emplace_back(lex);
            out.push_back(reg("Module", nullptr, static_cast<const ipr::Module*>(&modules.back())));
            unit_parts(modules.back().interface_unit());
         }
         else if (op == "make_module_unit") {
            auto m = const_cast<impl::Module*>(static_cast<const impl::Module*>(static_cast<const ipr::Module*>(item(a.at(0)).raw)));
            unit_parts(*m->make_unit());
         }
         else if (op == "make_subregion") {
            auto r = as<impl::Region>(a.at(0))->make_subregion();
            out.push_back(reg("Region", r, nullptr, false));
         }
         else if (op == "make_class") {
            auto c = lex.make_class(region(a.at(0)));
            out.push_back(reg("Class", c, nullptr));
            out.push_back(reg("Region", &c->region(), nullptr, true));
            out.push_back(reg("Region", &c->base_subobjects, nullptr, false));
         }
         else if (op == "make_union") { auto c = lex.make_union(region(a.at(0))); out.push_back(reg("Union", c, nullptr)); out.push_back(reg("Region", &c->region(), nullptr, true)); }
         else if (op == "make_namespace") { auto c = lex.make_namespace(region(a.at(0))); out.push_back(reg("Namespace", c, nullptr)); out.push_back(reg("Region", &c->region(), nullptr, true)); }
         else if (op == "make_closure") { auto c = lex.make_closure(region(a.at(0))); out.push_back(reg("Closure", c, nullptr)); out.push_back(reg("Region", &c->region(), nullptr, true)); }
         else if (op == "make_enum") {
            auto c = lex.make_enum(region(a.at(0)), counter++ % 2 ? ipr::Enum::Kind::Scoped : ipr::Enum::Kind::Legacy);
            out.push_back(reg("Enum", c, nullptr)); out.push_back(reg("Region", &c->region(), nullptr, true));
         }
         else if (op == "make_block") { auto b = lex.make_block(region(a.at(0))); out.push_back(reg("Block", b, nullptr)); out.push_back(reg("Region", &b->region(), nullptr, true)); }
         else if (op == "make_mapping") { auto m = lex.make_mapping(region(a.at(0)), level(1)); out.push_back(reg("Mapping", m, nullptr)); out.push_back(reg("Region", &m->parameters().region(), nullptr, true)); }
         else if (op == "make_lambda") { auto m = lex.make_lambda(region(a.at(0)), level(1)); out.push_back(reg("Lambda", m, nullptr)); out.push_back(reg("Region", &m->parameters().region(), nullptr, true)); }
         else if (op == "make_requires") { auto m = lex.make_requires(region(a.at(0)), level(1)); out.push_back(reg("Requires", m, nullptr)); out.push_back(reg("Region", &m->parameters().region(), nullptr, false)); }
         else if (op == "make_function_morphism") {
            auto m = units.front().global_region()->make_function_morphism(region(a.at(0)), level(1));
            out.push_back(reg("Morphism", nullptr, static_cast<const ipr::cxx_form::Morphism::Function*>(m)));
            out.push_back(reg("Region", &m->parameters().region(), nullptr, false));
         }
         else if (op == "make_where") { auto w = lex.make_where(region(a.at(0))); out.push_back(reg("Where", w, nullptr)); out.push_back(reg("Region", &w->region, nullptr, false)); }
         else if (op == "new_handler") {
            auto b = as<impl::Block>(a.at(0));
            // the shape of a handler does not depend on what it catches: the exception type cycles through int, `...`, *char, bool
            const ipr::Type* caught[] = { &lex.int_type(), &lex.ellipsis_type(), &lex.get_pointer(lex.char_type()), &lex.bool_type() };
            auto h = b->new_handler(fresh_name(), *caught[handlers_made++ % 4]);
            const ipr::Handler& ih = *h;
            out.push_back(reg("Handler", h, nullptr));
            out.push_back(reg("EH_parameter", &ih.exception(), nullptr));
            out.push_back(reg("Region", &ih.body().region().enclosing(), nullptr, false));
            out.push_back(reg("Block", &ih.body(), nullptr));
            out.push_back(reg("Region", &ih.body().region(), nullptr, true));
         }
         else if (op == "add_param") {
            auto& it = item(a.at(0));
            impl::Parameter* p = nullptr;
            if (it.c == "Mapping") p = as<impl::Mapping>(a.at(0))->param(param_name(), lex.int_type());
            else if (it.c == "Lambda") p = as<impl::Lambda>(a.at(0))->inputs.add_member(param_name(), lex.int_type());
            else if (it.c == "Requires") p = as<impl::Requires>(a.at(0))->formals.add_member(param_name(), lex.int_type());
            else {
               auto m = const_cast<ipr::cxx_form::impl::Function_morphism*>(
                  static_cast<const ipr::cxx_form::impl::Function_morphism*>(static_cast<const ipr::cxx_form::Morphism::Function*>(it.raw)));
               p = m->inputs.add_member(param_name(), lex.int_type());
            }
            out.push_back(reg("Parameter", p, nullptr));
         }
         else if (op == "add_enumerator") out.push_back(reg("Enumerator", as<impl::Enum>(a.at(0))->add_member(fresh_name()), nullptr));
         else if (op == "declare_base") {
            // distinct base types: pointers to int of increasing depth
            const ipr::Type* t = &lex.int_type();
            auto c = as<impl::Class>(a.at(0));
            for (std::size_t k = 0; k <= c->bases().size(); ++k) t = &lex.get_pointer(*t);
            out.push_back(reg("Base_type", c->declare_base(*t), nullptr));
         }
         else
            throw vh::HarnessError("unknown op " + op);
         return out;
      }

      Value event(const std::string& op, const std::vector<int>& a)
      {
         int before = static_cast<int>(items.size());
         auto ev = Value::object();
         auto aa = Value::array();
         for (int x : a) aa.push(x);
         ev.set("op", op).set("a", aa);
         auto ids = call(op, a);
         auto o = Value::array();
         bool fresh = true;
         for (std::size_t k = 0; k < ids.size(); ++k) {
            if (ids[k] != before + static_cast<int>(k)) fresh = false;
            o.push(obs(ids[k]));
         }
         ev.set("r", fresh and not ids.empty() ? ids.front() : -3).set("o", o);
         return ev;
      }
   };

   std::string tlc_unescape(const std::string& line)
   {
      auto b = line.find("\", \"");
      auto e = line.rfind("\">>");
      if (b == std::string::npos or e == std::string::npos) return { };
      std::string out;
      for (std::size_t k = b + 4; k < e; ++k) {
         if (line[k] == '\\' and k + 1 < e) { out += line[k + 1]; ++k; }
         else out += line[k];
      }
      return out;
   }
   struct LastBeh {
      FILE* f = nullptr;
      LastBeh() { if (auto p = std::getenv("VERIF_LASTBEH")) f = std::fopen(p, "w"); }
      void note(const std::string& text)
      {
         if (f == nullptr) return;
         std::rewind(f);
         std::fwrite(text.data(), 1, text.size(), f);
         std::fputc('\n', f);
         std::fflush(f);
         if (ftruncate(fileno(f), static_cast<off_t>(text.size() + 1)) != 0) { }
      }
   };

   std::vector<int> ints(const Value& a)
   {
      std::vector<int> v;
      for (auto& x : *a.a) v.push_back(static_cast<int>(x.as_int()));
      return v;
   }

   int do_replay()
   {
      std::ios::sync_with_stdio(false);
      std::string line;
      LastBeh lastbeh;
      long behaviours = 0, steps = 0, failed = 0, printed = 0;
      std::set<std::string> classes;
      std::map<std::string, long> fail_keys;
      std::string sample;
      while (std::getline(std::cin, line)) {
         std::string text = line.rfind("<<\"BEH\"", 0) == 0 ? tlc_unescape(line) : line;
         if (text.empty() or text[0] != '[') continue;
         Value beh = vj::parse(text);
         lastbeh.note(text);
         ++behaviours;
         if (sample.empty()) sample = text;
         Stage st;
         std::size_t k = 0;
         for (auto& h : *beh.a) {
            ++k; ++steps;
            auto& ev = h.at("ev");
            auto op = ev.at("op").as_str();
            auto a = ints(ev.at("a"));
            Value got = st.event(op, a);
            // class: operation x kind of the construct it is nested in (owner kind of the target region)
            std::string cls = op;
            if (not a.empty() and st.item(a[0]).c == "Region") {
               auto ow = static_cast<const ipr::Region*>(st.item(a[0]).node)->owner();
               cls += ow.is_valid() ? std::string(":in-") + vh::cat_name(ow.get().category) : ":in-unowned";
            }
            classes.insert(cls);
            std::string why;
            if (got.at("r").as_int() != ev.at("r").as_int()) why = "identity";
            else if (not vj::equal(got.at("o"), h.at("o"))) {
               why = "observation";
               auto& eo = h.at("o");
               auto& go = got.at("o");
               for (std::size_t j = 0; j < eo.size() and j < go.size(); ++j)
                  for (auto f : {"c", "parent", "owner", "of", "lvl", "pos", "glob", "depth", "binds"})
                     if (why == "observation" and not vj::equal(eo.at(j).at(f), go.at(j).at(f)))
                        why = eo.at(j).at("c").as_str() + "." + f;
            }
            if (not why.empty()) {
               ++failed;
               auto key = op + ":" + why;
               ++fail_keys[key];
               if (printed++ < 20) {
                  auto f = Value::object();
                  auto pre = Value::array();
                  for (std::size_t j = 0; j < k; ++j) pre.push((*beh.a)[j].at("ev"));
                  f.set("key", key).set("step", static_cast<long>(k)).set("expected", h.at("o")).set("got", got.at("o")).set("beh", pre);
                  std::cout << "FAIL " << vj::dump(f) << "\n";
               }
               break;
            }
         }
      }
      auto s = Value::object();
      auto fk = Value::object();
      for (auto& kv : fail_keys) fk.set(kv.first, kv.second);
      s.set("behaviours", behaviours).set("steps", steps).set("failed", failed).set("fail_keys", fk)
         .set("classes", static_cast<long>(classes.size())).set("sample", sample);
      std::cout << "SUMMARY " << vj::dump(s) << "\n";
      return 0;
   }

   int do_record(int argc, char** argv)
   {
      unsigned long seed = 1;
      int runs = 3, len = 150;
      bool deep = false;
      for (int k = 2; k + 1 < argc; k += 2) {
         std::string f = argv[k], v = argv[k + 1];
         if (f == "--seed") seed = std::stoul(v);
         else if (f == "--runs") runs = std::stoi(v);
         else if (f == "--len") len = std::stoi(v);
         else if (f == "--deep") deep = v == "1";
      }
      std::mt19937_64 g { seed };
      auto below = [&](int n) { return static_cast<int>(g() % static_cast<unsigned long>(n)); };
      const std::vector<std::string> openers { "make_subregion", "make_class", "make_union", "make_enum", "make_namespace",
         "make_closure", "make_block", "make_mapping", "make_lambda", "make_requires", "make_where", "make_function_morphism" };
      for (int run = 0; run < runs; ++run) {
         std::cout << "{\"op\":\"reset\",\"a\":[],\"r\":0,\"o\":[]}\n";
         Stage st;
         std::cout << vj::dump(st.event("make_unit", {})) << "\n";
         for (int k = 0; k < len; ++k) {
            std::vector<int> regions, hetero, blocks, lists, enums, classes, mods;
            for (int id = 1; id < static_cast<int>(st.items.size()); ++id) {
               auto& it = st.items[id];
               if (it.c == "Region") { regions.push_back(id); if (dynamic_cast<const impl::Region*>(it.node)) hetero.push_back(id); }
               else if (it.c == "Block" and dynamic_cast<const impl::Block*>(it.node)
                        and not static_cast<const ipr::Region&>(dynamic_cast<const impl::Block*>(it.node)->region()).global()) blocks.push_back(id);
               else if (it.c == "Mapping" or it.c == "Lambda" or it.c == "Requires" or it.c == "Morphism") lists.push_back(id);
               else if (it.c == "Enum") enums.push_back(id);
               else if (it.c == "Class") classes.push_back(id);
               else if (it.c == "Module") mods.push_back(id);
            }
            auto pick = [&](const std::vector<int>& v) {
               // deep runs prefer the newest entities so that nesting depth grows
               if (deep and below(100) < 80) return v[v.size() - 1 - std::min<std::size_t>(v.size() - 1, below(2))];
               return v[below(static_cast<int>(v.size()))];
            };
            int c = below(100);
            std::string op;
            std::vector<int> a;
            if (c < 55) {
               op = openers[below(static_cast<int>(openers.size()))];
               a.push_back(op == "make_subregion" ? pick(hetero) : pick(regions));
               if (op == "make_mapping" or op == "make_lambda" or op == "make_requires" or op == "make_function_morphism") a.push_back(below(5));
            }
            else if (c < 65 and not blocks.empty()) { op = "new_handler"; a.push_back(pick(blocks)); }
            else if (c < 80 and not lists.empty()) { op = "add_param"; a.push_back(pick(lists)); }
            else if (c < 87 and not enums.empty()) { op = "add_enumerator"; a.push_back(pick(enums)); }
            else if (c < 94 and not classes.empty()) { op = "declare_base"; a.push_back(pick(classes)); }
            else if (c < 96) op = "make_unit";
            else if (c < 98) op = "make_module";
            else if (not mods.empty()) { op = "make_module_unit"; a.push_back(pick(mods)); }
            else continue;
            std::cout << vj::dump(st.event(op, a)) << "\n";
         }
      }
      return 0;
   }
}

int main(int argc, char** argv)
{
   std::string mode = argc > 1 ? argv[1] : "";
   try {
      if (mode == "replay") return do_replay();
      if (mode == "record") return do_record(argc, argv);
   }
   catch (const std::logic_error& e) {
      // the library throws logic errors, the harness run-time errors: one that arrives here escaped from a call of the library
      // where the harness expected none -- recorded like a crash (a terminal event), not as a failure of the harness
      std::cout.flush();
      std::cerr << "exception of the library escaped: " << e.what() << "\n";
      std::abort();
   }
   catch (const std::exception& e) {
      std::cout << "HARNESS-ERROR " << e.what() << "\n";
      return 2;
   }
   return 2;
}
